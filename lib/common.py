"""Shared machinery of /verif/check: build steps, pipeline, audit, evidence, violation protocol."""
import fcntl, hashlib, json, os, re, subprocess, sys, time

VERIF = os.path.dirname(os.path.dirname(os.path.abspath(__file__)))
REPO = os.environ.get("VERIF_REPO", "/repo")
LEAN = os.path.join(VERIF, "lean")
BIN = os.path.join(VERIF, "bin")
WORK = os.path.join(VERIF, "evidence", "work")
REPLAY = os.path.join(VERIF, "evidence", "replay")
ALLOWED_AXIOMS = {"propext", "Classical.choice", "Quot.sound"}
GOENV = dict(os.environ, GOFLAGS="-mod=mod", GOPROXY="off", GOSUMDB="off", GOTOOLCHAIN="local",
             GOMEMLIMIT="6GiB", GORACE="exitcode=0 history_size=3")
LAST_STDERR = {"text": ""}
TRUSTED_BASE = [
    "Lean 4.33.0 kernel; axioms allowed: propext, Classical.choice, Quot.sound (audited per theorem with #print axioms on every run; no sorry/admit/native_decide/bv_decide/custom axioms: grep on every run)",
    "/verif/extract (go/ast fact extractor and expression translator) says what the source says",
    "/verif/harness (generators, canonicaliser) and /verif/check bookkeeping",
    "Go toolchain/runtime, encoding/json, regexp, reflect, go-openapi/{spec,errors,swag,strfmt,analysis,loads} as oracles/pre-processing (DESIGN.md section 8)",
]


def log(*a):
    print(*a, file=sys.stderr, flush=True)


def sh(cmd, cwd=None, env=None, timeout=None, check=False, input=None):
    p = subprocess.run(cmd, cwd=cwd, env=env, timeout=timeout, input=input,
                       stdout=subprocess.PIPE, stderr=subprocess.PIPE, text=True)
    if check and p.returncode != 0:
        raise RuntimeError("command failed: %s\n%s\n%s" % (cmd, p.stdout[-4000:], p.stderr[-4000:]))
    return p


class Lock:
    """serialise build steps between concurrently running checks"""
    def __init__(self, name):
        os.makedirs(WORK, exist_ok=True)
        self.path = os.path.join(WORK, name + ".lock")
    def __enter__(self):
        self.fh = open(self.path, "w")
        fcntl.flock(self.fh, fcntl.LOCK_EX)
    def __exit__(self, *a):
        fcntl.flock(self.fh, fcntl.LOCK_UN)
        self.fh.close()


# ---------------------------------------------------------------- build steps

def build_extractor():
    os.makedirs(BIN, exist_ok=True)
    d = os.path.join(VERIF, "extract")
    if not os.path.isdir(d):
        return None
    with Lock("extract-build"):
        p = sh(["go", "build", "-o", os.path.join(BIN, "extract"), "."], cwd=d, env=GOENV)
    if p.returncode != 0:
        raise RuntimeError("extractor build failed:\n" + p.stderr)
    return os.path.join(BIN, "extract")


def run_extractor():
    """T1: regenerate lean/VM/Generated from /repo's working tree (write-if-changed)."""
    exe = os.path.join(BIN, "extract")
    if not os.path.exists(exe):
        exe = build_extractor()
    if exe is None:
        return {"ok": True, "skipped": True}
    with Lock("lake"):
        p = sh([exe, "-repo", REPO, "-out", os.path.join(LEAN, "VM", "Generated")], env=GOENV)
    return {"ok": p.returncode == 0, "stdout": p.stdout, "stderr": p.stderr}


def lake_build(targets):
    """returns (ok, output). Serialised: lake does not like concurrent builds of one package."""
    with Lock("lake"):
        p = sh(["lake", "build"] + list(targets), cwd=LEAN)
    return p.returncode == 0, p.stdout + p.stderr


def build_harness(race=False):
    os.makedirs(BIN, exist_ok=True)
    d = os.path.join(VERIF, "harness")
    name = "harness_race" if race else "harness"
    with Lock("harness-build-" + name):
        sh(["cp", os.path.join(REPO, "go.sum"), os.path.join(d, "go.sum")])
        cmd = ["go", "build", "-tags", "verif", "-o", os.path.join(BIN, name)]
        if race:
            cmd.insert(2, "-race")
        if REPO != "/repo":
            # a check run against a scratch copy of the repository (mutation rehearsal): same go.mod, other replace target
            alt = os.path.join(d, "go.alt.mod")
            with open(alt, "w") as fh:
                fh.write(open(os.path.join(d, "go.mod")).read().replace("=> /repo", "=> " + REPO))
            sh(["cp", os.path.join(REPO, "go.sum"), os.path.join(d, "go.alt.sum")])
            cmd.append("-modfile=" + alt)
        p = sh(cmd + ["."], cwd=d, env=GOENV)
    if p.returncode != 0:
        return None, p.stdout + p.stderr
    return os.path.join(BIN, name), ""


def driver_path():
    return os.path.join(LEAN, ".lake", "build", "bin", "driver")


# ---------------------------------------------------------------- proofs / audit

FORBIDDEN = re.compile(r"\b(sorry|admit|native_decide|bv_decide|implemented_by|unsafe)\b|^axiom\s|maxHeartbeats 0")


def strip_comments(src):
    src = re.sub(r"/-.*?-/", "", src, flags=re.S)
    src = re.sub(r"--.*", "", src)
    return src


def grep_forbidden():
    hits = []
    for root, _, files in os.walk(os.path.join(LEAN, "VM")):
        for f in files:
            if f.endswith(".lean"):
                p = os.path.join(root, f)
                for i, line in enumerate(strip_comments(open(p).read()).splitlines()):
                    if FORBIDDEN.search(line):
                        hits.append("%s: %s" % (os.path.relpath(p, LEAN), line.strip()))
    return hits


def read_obligations(pid):
    p = os.path.join(LEAN, "obligations", pid + ".txt")
    out = []
    for line in open(p):
        line = line.split("#")[0].strip()
        if line:
            mod, thm = line.split()
            out.append((mod, thm))
    return out


def failing_theorems(build_output):
    """map Lean error locations back to theorem names"""
    names = []
    for m in re.finditer(r"error: (\S+\.lean):(\d+):(\d+)", build_output):
        path, line = os.path.join(LEAN, m.group(1)), int(m.group(2))
        try:
            src = open(path).read().splitlines()
        except OSError:
            continue
        name = None
        for k in range(min(line, len(src)) - 1, -1, -1):
            mm = re.match(r"\s*(?:private\s+)?(?:theorem|lemma|def|example|instance)\s+(\S+)?", src[k])
            if mm:
                name = "%s:%s" % (m.group(1), mm.group(1) or "example@%d" % (k + 1))
                break
        names.append(name or "%s:%d" % (m.group(1), line))
    seen, out = set(), []
    for n in names:
        if n not in seen:
            seen.add(n)
            out.append(n)
    return out


def prove(pid):
    """build the property's modules and audit axioms. Returns dict."""
    obs = read_obligations(pid)
    mods = sorted({m for m, _ in obs})
    t0 = time.time()
    ok, out = lake_build(mods + ["driver"])
    res = {"obligations": len(obs), "discharged": 0, "modules": mods, "build_ok": ok,
           "broken": [], "axioms": {}, "build_s": round(time.time() - t0, 1)}
    if not ok:
        res["broken"] = failing_theorems(out) or ["lake build failed"]
        res["build_output"] = out[-6000:]
        return res
    bad = grep_forbidden()
    if bad:
        res["broken"] = ["forbidden construct: " + b for b in bad]
        return res
    os.makedirs(WORK, exist_ok=True)
    audit = os.path.join(WORK, "Audit_%s_%d.lean" % (pid, os.getpid()))
    with open(audit, "w") as fh:
        for m in mods:
            fh.write("import %s\n" % m)
        for _, t in obs:
            fh.write("#print axioms %s\n" % t)
    p = sh(["lake", "env", "lean", audit], cwd=LEAN)
    os.unlink(audit)
    txt = p.stdout + p.stderr
    # parse "'name' depends on axioms: [a, b]" / "'name' does not depend on any axioms"
    found = {}
    for m in re.finditer(r"'([^']+)' depends on axioms: \[([^\]]*)\]", txt, flags=re.S):
        found[m.group(1)] = [a.strip() for a in m.group(2).replace("\n", " ").split(",") if a.strip()]
    for m in re.finditer(r"'([^']+)' does not depend on any axioms", txt):
        found[m.group(1)] = []
    for _, t in obs:
        if t not in found:
            res["broken"].append("missing theorem " + t)
        elif not set(found[t]) <= ALLOWED_AXIOMS:
            res["broken"].append("theorem %s uses axioms %s" % (t, found[t]))
        else:
            res["discharged"] += 1
        res["axioms"][t] = found.get(t)
    return res


# ---------------------------------------------------------------- pipeline

class HarnessCrash(Exception):
    """the harness process died (fatal runtime error, timeout): carries the id of the case it was running"""
    def __init__(self, fam, case_id, stderr, seed, tier):
        Exception.__init__(self, "harness crashed while running case %s" % case_id)
        self.fam, self.case_id, self.stderr, self.seed, self.tier = fam, case_id, stderr, seed, tier


def regenerate_case(fam, case_id, seed, tier, replay=None):
    """the generator is deterministic in (seed, index): fetch a case without running it"""
    exe = os.path.join(BIN, "harness")
    if not os.path.exists(exe):   # only the race-instrumented binary has been built so far
        built, _ = build_harness()
        exe = built or os.path.join(BIN, "harness_race")
    idx = None
    m = re.match(r".*-(\d+)-(\d+)$", case_id or "")
    if replay:
        for line in open(replay):
            c = json.loads(line)
            if c.get("id") == case_id:
                return c
        return None
    if not m:
        return None
    idx = int(m.group(2))
    p = sh([exe, "-fam", fam, "-seed", str(seed), "-n", str(idx + 1), "-tier", tier, "-gen-only"], env=GOENV)
    for line in p.stdout.splitlines():
        c = json.loads(line)
        if c.get("id") == case_id:
            return c
    return None


def run_family(fam, n, seed, tier, replay=None, extra=None, race=False, timeout=None):
    """harness -> driver; returns list of dict(case, go, m). Corpus cases run first."""
    if timeout is None:
        timeout = 3600 if tier == "quick" else 14400   # a loaded machine must not turn a thorough run into a "violation"
    exe, err = build_harness(race=race)
    if exe is None:
        raise RuntimeError("harness build failed (tie T2 cannot be evaluated):\n" + err)
    cmd = [exe, "-fam", fam, "-seed", str(seed), "-n", str(n), "-tier", tier]
    corpus = os.path.join(VERIF, "corpus", fam + ".jsonl")
    if replay:
        cmd += ["-replay", replay]
    elif os.path.exists(corpus):
        cmd += ["-corpus", corpus]
    if extra:
        cmd += extra
    os.makedirs(WORK, exist_ok=True)
    tag = "%s_%d" % (fam, os.getpid())
    hout = os.path.join(WORK, tag + ".go.jsonl")
    mout = os.path.join(WORK, tag + ".m.jsonl")
    with open(hout, "w") as fh:
        p = subprocess.run(cmd, stdout=fh, stderr=subprocess.PIPE, text=True, env=GOENV, timeout=timeout)
    LAST_STDERR["text"] = p.stderr
    if p.returncode != 0:
        last = None
        for mm in re.finditer(r"^CASE (\S+)$", p.stderr, flags=re.M):
            last = mm.group(1)
        if last:
            raise HarnessCrash(fam, last, p.stderr[-3000:], seed, tier)
        raise RuntimeError("harness failed: %s\n%s" % (cmd, p.stderr[-4000:]))
    with open(hout) as fin, open(mout, "w") as fout:
        p = subprocess.run([driver_path()], stdin=fin, stdout=fout, stderr=subprocess.PIPE, text=True, timeout=timeout)
    if p.returncode != 0:
        raise RuntimeError("driver failed:\n" + p.stderr[-4000:])
    rows = []
    with open(hout) as f1, open(mout) as f2:
        for l1, l2 in zip(f1, f2):
            c = json.loads(l1)
            m = json.loads(l2)
            if m.get("id") != c.get("id"):
                raise RuntimeError("driver/harness line mismatch: %s vs %s" % (m.get("id"), c.get("id")))
            go = c.pop("go")
            rows.append({"case": c, "go": go, "m": m.get("m")})
    os.unlink(hout)
    os.unlink(mout)
    return rows


def run_family_sharded(fam, n, seed, tier, shards=16, replay=None, extra=None, timeout=None):
    """like run_family, with the generated cases spread over `shards` harness processes"""
    if timeout is None:
        timeout = 3600 if tier == "quick" else 14400
    if replay or shards <= 1:
        return run_family(fam, n, seed, tier, replay=replay, extra=extra, timeout=timeout)
    exe, err = build_harness()
    if exe is None:
        raise RuntimeError("harness build failed (tie T2 cannot be evaluated):\n" + err)
    os.makedirs(WORK, exist_ok=True)
    corpus = os.path.join(VERIF, "corpus", fam + ".jsonl")
    procs = []
    for i in range(shards):
        cmd = [exe, "-fam", fam, "-seed", str(seed), "-n", str(n), "-tier", tier, "-shard", str(i), "-shards", str(shards)]
        if os.path.exists(corpus):
            cmd += ["-corpus", corpus]
        if extra:
            cmd += extra
        hout = os.path.join(WORK, "%s_%d_s%d.go.jsonl" % (fam, os.getpid(), i))
        fh = open(hout, "w")
        procs.append((subprocess.Popen(cmd, stdout=fh, stderr=subprocess.PIPE, text=True, env=GOENV), fh, hout))
    rows = []
    crash = None
    cmds = {}
    for i in range(shards):
        cmds[os.path.join(WORK, "%s_%d_s%d.go.jsonl" % (fam, os.getpid(), i))] = i
    for p, fh, hout in procs:
        timed_out = False
        try:
            _, err = p.communicate(timeout=timeout)
        except subprocess.TimeoutExpired:
            timed_out = True
            p.kill()
            _, err = p.communicate()
        fh.close()
        if p.returncode is not None and p.returncode < 0 and not timed_out and "fatal error" not in (err or "") and "panic:" not in (err or ""):
            # killed from outside (e.g. the kernel's out-of-memory killer on a machine shared with other jobs): not an answer of
            # the code under test - run that shard once more, alone
            cmd = list(p.args)
            with open(hout, "w") as fh2:
                p = subprocess.Popen(cmd, stdout=fh2, stderr=subprocess.PIPE, text=True, env=GOENV)
                try:
                    _, err = p.communicate(timeout=timeout)
                except subprocess.TimeoutExpired:
                    p.kill()
                    _, err = p.communicate()
        if p.returncode != 0 and crash is None:
            last = None
            for mm in re.finditer(r"^CASE (\S+)$", err or "", flags=re.M):
                last = mm.group(1)
            crash = HarnessCrash(fam, last, (err or "")[-3000:], seed, tier) if last else RuntimeError("harness failed:\n" + (err or "")[-3000:])
    if crash:
        for _, _, hout in procs:
            if os.path.exists(hout):
                os.unlink(hout)
        raise crash
    allout = os.path.join(WORK, "%s_%d_all.go.jsonl" % (fam, os.getpid()))
    with open(allout, "w") as out:
        for _, _, hout in procs:
            with open(hout) as f:
                for line in f:
                    out.write(line)
            os.unlink(hout)
    mout = allout.replace(".go.jsonl", ".m.jsonl")
    with open(allout) as fin, open(mout, "w") as fout:
        p = subprocess.run([driver_path()], stdin=fin, stdout=fout, stderr=subprocess.PIPE, text=True, timeout=timeout)
    if p.returncode != 0:
        raise RuntimeError("driver failed:\n" + p.stderr[-4000:])
    with open(allout) as f1, open(mout) as f2:
        for l1, l2 in zip(f1, f2):
            c = json.loads(l1)
            m = json.loads(l2)
            if m.get("id") != c.get("id"):
                raise RuntimeError("driver/harness line mismatch: %s vs %s" % (m.get("id"), c.get("id")))
            go = c.pop("go")
            rows.append({"case": c, "go": go, "m": m.get("m")})
    os.unlink(allout)
    os.unlink(mout)
    rows.sort(key=lambda r: (not str(r["case"].get("id", "")).startswith(fam + "-"), r["case"].get("id")))
    return rows


def case_hash(c):
    c = {k: v for k, v in c.items() if k != "id"}
    return hashlib.sha1(json.dumps(c, sort_keys=True).encode()).hexdigest()[:12]


def write_replay(pid, case, info):
    os.makedirs(REPLAY, exist_ok=True)
    path = os.path.join(REPLAY, "%s-%s.json" % (pid, case_hash(case) if case else hashlib.sha1(json.dumps(info, sort_keys=True).encode()).hexdigest()[:12]))
    with open(path, "w") as fh:
        json.dump({"property": pid, "case": case, "info": info}, fh, indent=1, sort_keys=True)
    return path


def load_known_findings(pid):
    p = os.path.join(VERIF, "known_findings.json")
    if not os.path.exists(p):
        return []
    return [f for f in json.load(open(p)) if f.get("property") == pid]


def write_evidence(pid, tier, seed, t0, proof, cov, violations, assumptions):
    os.makedirs(os.path.join(VERIF, "evidence"), exist_ok=True)
    coverage = dict(cov)
    coverage.update({
        "obligations": proof["obligations"],
        "discharged": proof["discharged"],
        "checker_cmd": "cd /verif/lean && lake build %s && lake env lean <audit: #print axioms per obligation>" % " ".join(proof["modules"]),
        "trusted_base": TRUSTED_BASE,
        "theorems": proof.get("axioms", {}),
        "broken_obligations": proof.get("broken", []),
    })
    ev = {"property_id": pid, "tier": tier, "seed": seed, "level": "proof", "coverage": coverage,
          "assumptions": assumptions, "wall_s": round(time.time() - t0, 1), "violations": violations}
    with open(os.path.join(VERIF, "evidence", pid + ".json"), "w") as fh:
        json.dump(ev, fh, indent=1, sort_keys=True)
