"""Shared evaluation of the `history` / `historypanic` families (C04, C11)."""
import json, os


def run(C, fam, n, seed, tier, replay=None):
    """returns (rows, crash) where crash is a dict describing a harness crash or None"""
    try:
        return C.run_family(fam, n, seed, tier, replay=replay), None
    except C.HarnessCrash as e:
        case = C.regenerate_case(e.fam, e.case_id, e.seed, e.tier, replay=replay)
        return [], {"case": case, "case_id": e.case_id, "stderr_tail": e.stderr[-1500:]}


def first_line(stderr):
    for line in stderr.splitlines():
        if line.startswith("fatal error") or line.startswith("panic:") or "stack overflow" in line:
            return line.strip()
    return stderr.strip().splitlines()[-1] if stderr.strip() else "process died"


def call_kinds(case):
    return [c.get("kind") for c in case.get("calls", [])]


def _norm(o):
    """the documented panic on an unresolvable $ref embeds the resolver's error text, which names whichever missing target
    go-openapi/spec met first (map order): only the fact of that panic is compared"""
    if isinstance(o, dict) and isinstance(o.get("panic"), str) and o["panic"].startswith("Invalid schema provided to SchemaValidator:"):
        return dict(o, panic="Invalid schema provided to SchemaValidator: <resolver error>")
    return o


def compare(rows):
    """yields (case, call index, ref outcome, subject outcome) for differing calls, and trace breaches"""
    for r in rows:
        case, go, m = r["case"], r["go"], r["m"] or {}
        if not isinstance(go, dict) or "ref" not in go:
            yield case, None, None, go, "harness"
            continue
        for i, (a, b) in enumerate(zip(go["ref"], go["subj"])):
            if _norm(a) != _norm(b):
                yield case, i, a, b, "outcome"
        if m.get("traceOk") is False:
            yield case, None, None, m.get("breach"), "trace"
