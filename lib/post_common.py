"""Shared evaluation of the `post` family (C18, C19)."""
import json


def canon(v):
    if isinstance(v, dict):
        if "$rat" in v and len(v) == 1:
            return v["$rat"][0] / v["$rat"][1]
        return {k: canon(x) for k, x in sorted(v.items())}
    if isinstance(v, list):
        return [canon(x) for x in v]
    if isinstance(v, float) and v == int(v):
        return int(v)
    return v


def applies_index(m):
    """(pos tuple, field) -> list of (hasDflt, dflt)"""
    idx = {}
    for a in m.get("applies", []):
        idx.setdefault((tuple(a["pos"]), a["field"]), []).append((a["hasDflt"], canon(a["dflt"])))
    return idx


def has_any_one_of(s):
    if isinstance(s, dict):
        return "anyOf" in s or "oneOf" in s or any(has_any_one_of(v) for v in s.values())
    if isinstance(s, list):
        return any(has_any_one_of(v) for v in s)
    return False


def check_defaults(idx, before, after, pos=()):
    """C18 statement on one (input, output) pair; returns list of complaints"""
    out = []
    if isinstance(before, dict):
        if not isinstance(after, dict):
            return ["object at %s replaced" % (list(pos),)]
        fields = {f for (p, f) in idx if p == pos}
        for f in set(after) - set(before):
            allowed = [d for has, d in idx.get((pos, f), []) if has]
            if not allowed:
                out.append("member %r appeared at %s although no applicable schema declares a default for it" % (f, list(pos)))
            elif after[f] not in allowed:
                out.append("member %r at %s holds %r, not a default of an applicable schema (%r)" % (f, list(pos), after[f], allowed))
        for f in fields - set(before):
            if any(has for has, _ in idx.get((pos, f), [])) and f not in after:
                out.append("absent member %r at %s has an applicable default but was not filled" % (f, list(pos)))
        for f in before:
            if f not in after:
                out.append("present member %r at %s disappeared" % (f, list(pos)))
            else:
                out += check_defaults(idx, before[f], after[f], pos + (f,))
    elif isinstance(before, list):
        if not isinstance(after, list) or len(after) != len(before):
            return ["array at %s changed length" % (list(pos),)]
        for i, (b, a) in enumerate(zip(before, after)):
            out += check_defaults(idx, b, a, pos + (str(i),))
    elif before != after:
        out.append("value at %s changed from %r to %r" % (list(pos), before, after))
    return out


def check_prune(idx, before, after, pos=()):
    out = []
    if isinstance(before, dict):
        if not isinstance(after, dict):
            return ["object at %s replaced" % (list(pos),)]
        for f in before:
            described = (pos, f) in idx
            if described and f not in after:
                out.append("member %r at %s is described by an applicable schema but was removed" % (f, list(pos)))
            if not described and f in after:
                out.append("member %r at %s is described by no applicable schema but remains" % (f, list(pos)))
            if f in after:
                out += check_prune(idx, before[f], after[f], pos + (f,))
        for f in set(after) - set(before):
            out.append("member %r appeared at %s" % (f, list(pos)))
    elif isinstance(before, list):
        if not isinstance(after, list) or len(after) != len(before):
            return ["array at %s changed length" % (list(pos),)]
        for i, (b, a) in enumerate(zip(before, after)):
            out += check_prune(idx, b, a, pos + (str(i),))
    elif before != after:
        out.append("value at %s changed" % (list(pos),))
    return out


def known_lines(C, S, pid, checkfn, key):
    """replay the witnesses of the listed findings on the real code: a line for each that still fails"""
    import json, os
    lines = []
    for f in [f for f in S.known_for(C, pid) if f.get("witness")]:
        path = os.path.join(C.WORK, "known_%s_%d.jsonl" % (pid, os.getpid()))
        w = dict(f["witness"]); w["fam"] = "post"; w["id"] = f["id"]
        open(path, "w").write(json.dumps(w) + "\n")
        row = C.run_family("post", 0, 0, "quick", replay=path)[0]
        os.unlink(path)
        if row["go"].get("valid") and checkfn(applies_index(row["m"]), canon(w["data"]), canon(row["go"][key])):
            lines.append("%s (%s) [%s]" % (f["what"], f["site"], f["id"]))
    return lines
