"""C01 - schema validation verdicts agree with JSON-Schema draft 4."""
import json
import schema_common as S

ASSUMPTIONS = [
    "float64 carrier of encoding/json is exact on the generated literals (<=15 significant digits, |x|<=2^53)",
    "Go regexp and the strfmt registry are oracles (tables computed by the harness with the same libraries)",
    "spec.ExpandSchema replaces a local $ref node by its target (model resolves $ref at the point of use)",
    "map iteration order: the model iterates sorted members; C08_perm-style invariance is what makes that harmless",
]

RULE = ("type-directed random draft-4 schemas (all supported keywords, nested to depth 1-3, local $ref into definitions, "
        "awkward member names) x schema-directed mostly-valid instances with 0-2 mutations plus a random stream; "
        "every case runs through AgainstSchema and NewSchemaValidator(...).Validate and is compared with the Lean model "
        "(Cfg.asIs) and the Lean draft-4 specification; non-trivial = schema with at least 3 keywords, distinct by hash")


def correspond(ctx, C):
    n = 12000 if ctx.tier == "quick" else 300000
    if ctx.search:
        n *= 3
    rows = C.run_family("schema", n, ctx.seed, ctx.tier, replay=S.replay_file(ctx, C))
    known = {f["switch"]: f for f in S.known_for(C, "C01")}
    st = S.Stats()
    viol, ties, attributed = [], [], {}
    for r in rows:
        case, go, m = r["case"], r["go"], r["m"]
        st.add(C, r)
        if "undecodable" in go or "bad" in (m or {}):
            continue
        ob, os_ = go["object"], go["oneshot"]
        im, im0 = m["impl"], m["impl0"]
        gp, gp0 = "panic" in ob, "panic" in os_
        if gp != im["panic"] or gp0 != im0["panic"] or (not gp and ob["valid"] != im["valid"]) or (not gp0 and os_["valid"] != im0["valid"]):
            ties.append((case, {"what": "model and implementation disagree on the verdict (tie T2 broken)",
                                "go_object": ob.get("valid", "panic"), "go_oneshot": os_.get("valid", "panic"),
                                "impl": im["valid"], "impl_panic": im["panic"], "spec": m["spec"]}))
        if gp or gp0:
            continue  # panics are judged by C06
        if ob["valid"] != os_["valid"]:
            viol.append((case, {"what": "one-shot entry point and validator object disagree", "object": ob["valid"], "oneshot": os_["valid"]}))
            continue
        if ob["valid"] != m["spec"] and ob["valid"] != im["valid"]:
            # the code contradicts the specification and the model of the code as it is does not reproduce it:
            # no listed finding can explain this case
            viol.append((case, {"what": "verdict differs from draft-4 semantics and from the model of the code as it is",
                                "go_valid": ob["valid"], "spec_valid": m["spec"], "impl_valid": im["valid"]}))
        elif ob["valid"] != m["spec"]:
            sw = [s for s in m["explain"] if s in known]
            if not sw and not m["explain"] and m["rep"]["valid"] == m["spec"] and not m["rep"]["panic"] and set(m.get("active", S.C01_SWITCHES)) <= set(known):
                sw = ["(several known switches together)"]
            if sw:
                for s in sw:
                    attributed[s] = attributed.get(s, 0) + 1
                    st.switch_hits[s] = st.switch_hits.get(s, 0) + 1
            else:
                viol.append((case, {"what": "verdict differs from draft-4 semantics and no listed finding explains it",
                                    "go_valid": ob["valid"], "spec_valid": m["spec"], "switches_that_would_explain": m["explain"]}))
    out_viol = []
    def still_spec(row):
        ob = row["go"].get("object", {})
        if "valid" not in ob or ob["valid"] == row["m"]["spec"]:
            return False
        return ob["valid"] != row["m"]["impl"]["valid"] or not [s for s in row["m"]["explain"] if s in known]
    def still_tie(row):
        ob = row["go"].get("object", {})
        return ("panic" in ob) != row["m"]["impl"]["panic"] or ("valid" in ob and ob["valid"] != row["m"]["impl"]["valid"])
    for case, info in viol[:3]:
        small = S.minimise(C, "schema", case, still_spec) if "spec_valid" in info else case
        out_viol.append((small, info))
    if ties and not out_viol:
        case, info = ties[0]
        small = S.minimise(C, "schema", case, still_tie)
        info = dict(info, tie_cases=len(ties))
        # a tie break is a violation even when no input contradicts the specification
        info["what"] += "; no input contradicting the specification was found" 
        out_viol.append((small, dict(info, no_failing_input=True)))
    # known findings: replay witnesses on the real code
    lines = []
    for f, row in S.replay_known(C, "C01"):
        ob = row["go"].get("object", {})
        if "valid" in ob and ob["valid"] != row["m"]["spec"]:
            lines.append("%s (%s) [%s]" % (f["what"], f["site"], f["id"]))
    cov = st.coverage(RULE)
    cov["attributed_to_known_findings"] = attributed
    cov["tie_mismatches"] = len(ties)
    return {"coverage": cov, "violations": out_viol, "known": lines}
