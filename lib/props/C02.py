"""C02 - an accepted Swagger document always satisfies the Swagger 2.0 JSON schema."""
import json, os, subprocess
import spec_common as S
import schema_common as SC

ASSUMPTIONS = [
    "the Swagger 2.0 schema is the closed Lean term regenerated on every run from the JSON file of go-openapi/spec in the module cache of /repo's go.mod (tools/gen_swagger_lean.py); the check compares that source with the schema the library hands out at run time",
    "theorems about the schema pass are stated for the validator tree without the Swagger-specific strictness options (they only add errors inside the object validator); the correspondence runs the model with those options on, as the code does",
    "loads / YAML decoding / analysis are pre-processing: the raw document is what doc.Raw() returns",
    "Go regexp and the strfmt registry are oracles (tables computed by the harness with the same libraries)",
]

RULE = ("grammar documents with rule-breaking edits (spec) and grammar/fixture documents with 1-3 arbitrary structural edits "
        "(specmut: delete, retype, rename, transplant, null, dangling/sibling $ref ...); for every loaded document: (tie) Go's schema "
        "pass (verdict and error set) = Lean model of the validator tree over the regenerated Swagger schema term; (property) any run "
        "of Validate, in either continue-on-errors mode, that reports no error => the Lean draft-4 specification accepts the raw document")


def canon(x, inmap=False):
    if isinstance(x, dict):
        return {k: canon(v, k in ("properties", "patternProperties", "definitions", "dependencies") and not inmap)
                for k, v in x.items() if inmap or k not in ("description", "title", "$schema")}
    if isinstance(x, list):
        return [canon(v) for v in x]
    if isinstance(x, float) and x == int(x):
        return int(x)
    return x


def schema_source_tie(C):
    """the schema the library validates with == the source the Lean term is generated from"""
    p = subprocess.run(["python3", os.path.join(C.VERIF, "tools", "gen_swagger_lean.py")], stdout=subprocess.PIPE, stderr=subprocess.PIPE, text=True)
    if p.returncode != 0:
        return "generator failed: " + p.stderr[-500:]
    rows = C.run_family("swaggerschema", 1, 1, "quick")
    go = rows[0]["go"]["schemas"][0]
    env = dict(os.environ, GOFLAGS="-mod=mod", GOPROXY="off", GOSUMDB="off", GOTOOLCHAIN="local")
    d = subprocess.run(["go", "list", "-m", "-f", "{{.Dir}}", "github.com/go-openapi/spec"], cwd=C.REPO, env=env,
                       stdout=subprocess.PIPE, text=True).stdout.strip()
    src = json.load(open(os.path.join(d, "schemas", "v2", "schema.json")))
    if json.dumps(canon(go), sort_keys=True) != json.dumps(canon(src), sort_keys=True):
        return "the Swagger schema handed out by the library differs from %s/schemas/v2/schema.json" % d
    return None


def correspond(ctx, C):
    st = S.SpecStats()
    broken_tie = schema_source_tie(C)
    rows = S.run(ctx, C, "speccat", 196, 1960) + S.run(ctx, C, "spec", 256, 4000) + S.run(ctx, C, "specmut", 160, 4000) + S.run(ctx, C, "specfix", 208, 208)
    known = {f["switch"]: f for f in S.known_for(C, "C02") if f.get("switch")}
    viol, ties, attributed = [], [], {}
    schema_invalid = 0
    for r in rows:
        st.add(C, r)
        go, m = r["go"], r["m"]
        if not isinstance(go, dict) or not go.get("loaded") or "crash" in go or not m or "swagger" not in m:
            continue
        sw = m["swagger"]
        sp = go.get("schemaPass") or {}
        if "valid" in sp:
            if sp["valid"] != sw["impl"]["valid"] or SC.go_errs(sp["errors"]) != SC.impl_errs(sw["impl"]["errs"]):
                ties.append((r["case"], {"what": "schema pass: model and implementation disagree (tie T2 broken)",
                                         "go_valid": sp["valid"], "impl_valid": sw["impl"]["valid"], "spec_valid": sw["spec"],
                                         "only_go": sorted(set(SC.go_errs(sp["errors"])) - set(SC.impl_errs(sw["impl"]["errs"])))[:5],
                                         "only_impl": sorted(set(SC.impl_errs(sw["impl"]["errs"])) - set(SC.go_errs(sp["errors"])))[:5]}))
        if not sw["spec"]:
            schema_invalid += 1
        accepted = [x for x in go.get("runs", []) if x.get("valid")]
        if accepted and not sw["spec"] and not sw["impl"]["valid"]:
            # accepted although the model of the schema pass (code as it is) rejects: nothing listed explains that
            viol.append((r["case"], {"what": "spec validation reports no error but the raw document violates the Swagger 2.0 schema, and the model of the schema pass rejects it too",
                                     "accepted_in_mode_continue": [x["cont"] for x in accepted]}))
        elif accepted and not sw["spec"]:
            sws = [s for s in sw["explain"] if s in known]
            if not sws and not sw["explain"] and sw["repValid"] == sw["spec"] and set(sw["active"]) <= set(known):
                sws = ["(several known switches together)"]
            if sws:
                for s in sws:
                    attributed[s] = attributed.get(s, 0) + 1
            else:
                viol.append((r["case"], {"what": "spec validation reports no error but the raw document violates the Swagger 2.0 schema",
                                         "accepted_in_mode_continue": [x["cont"] for x in accepted],
                                         "switches_that_would_explain": sw["explain"], "model_verdict": sw["impl"]["valid"]}))
    out = viol[:3]
    if not out and (ties or broken_tie):
        if ties:
            case, info = ties[0]
            out.append((case, dict(info, tie_cases=len(ties), no_failing_input=True)))
        else:
            out.append((None, {"what": broken_tie, "no_failing_input": True}))
    lines = []
    for f, row in S.replay_known(C, "C02"):
        go, m = row["go"], row["m"]
        if any(x.get("valid") for x in go.get("runs", [])) and not m["swagger"]["spec"]:
            lines.append("%s (%s) [%s]" % (f["what"], f["site"], f["id"]))
    cov = st.coverage(RULE)
    cov["schema_invalid_documents"] = schema_invalid
    cov["attributed_to_known_findings"] = attributed
    cov["tie_mismatches"] = len(ties)
    cov["schema_source_tie"] = broken_tie or "ok"
    return {"coverage": cov, "violations": out, "known": lines}
