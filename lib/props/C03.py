"""C03 - spec validation enforces exactly the documented extra rules."""
import spec_common as S

ASSUMPTIONS = [
    "the analysed view (operations with resolved parameters and responses, definitions) is built by the Lean driver from the raw document; decoding, $ref expansion and analysis by go-openapi/spec, loads, analysis are outside the model",
    "Go regexp is an oracle for pattern validity and matching",
    "the circular-ancestry message may name any member of the cycle; with the path-uniqueness option and three or more mutually overlapping paths, which pairs are named depends on Go's map order, so overlap messages are compared by the paths they involve",
    "documents with an unresolvable $ref are judged at document level only (an error must be reported); the per-rule comparison needs every reference to resolve",
]

RULE = ("documents from a grammar of paths (0-2 placeholders per segment), operations, parameters of every location (inline, path-level, "
        "via #/parameters), responses/headers (inline and via #/responses), definitions with allOf inheritance and $ref; 0-2 rule-breaking "
        "edits from a catalogue of 29 (one per documented rule and variant); both continue-on-errors settings, path-uniqueness option on in a quarter. "
        "(tie) rule messages reported by Go with continue-on-errors = messages of the Lean model of the rules, as sets; "
        "(property) for documents whose defaults/examples are all good: Go reports no error <=> the Lean model reports no rule violation, in both modes")


def overlap_norm(tags):
    out = set()
    for t in tags:
        if t.startswith("pathOverlap:"):
            for a in t[len("pathOverlap:"):].split("|"):
                out.add("pathOverlapInvolves:" + a)
        else:
            out.add(t)
    return out


def compare(case, go, m):
    """returns (breach or None, go_tags)"""
    cont = S.runs_of(go, True, "same")
    stop = S.runs_of(go, False, "same")
    if not cont or "errors" not in cont[0]:
        return None, set()
    g = S.norm_circular(S.rule_tags(cont[0]["errors"]))
    l = S.norm_circular(set(m["rules"]))
    unresolved = (not m.get("localRefsOk")) or any(t.startswith(("unresolvedReferences", "invalidRef")) for t in g)
    if unresolved:
        if cont[0].get("valid") or (stop and stop[0].get("valid")):
            return {"what": "a document with an unresolvable $ref is accepted"}, g
        return None, g
    if any(t.startswith("circular") for t in g | l):
        g = {t for t in g if not t.startswith("duplicateProperties")}
        l = {t for t in l if not t.startswith("duplicateProperties")}
    g, l = overlap_norm(g), overlap_norm(l)
    # document-level statement: accepted <=> every rule holds (documents whose other stages are clean). The model's verdict
    # stands for the specification here (theorem C03_rules: the model reports nothing exactly when every rule holds), so a
    # disagreement on such a document is a failing input of the property itself, whatever the state of the tie.
    clean_other = case.get("flavour") in (0, 1) and not case.get("exotic") and (go.get("schemaPass") or {}).get("valid")
    if clean_other:
        for run in (cont[0], stop[0] if stop else cont[0]):
            other = [e for e in run.get("errors", []) if S.classify(e) is None]
            if l and run.get("valid"):
                return {"what": "a documented rule is broken but validation reports no error (continue=%s)" % run["cont"], "model_rules": sorted(l)[:6]}, g
            if not l and not run.get("valid") and not other:
                return {"what": "every documented rule holds but validation reports a rule error", "go_errors": run["errors"][:6]}, g
    if g != l:
        return {"what": "rule messages of the implementation and of the model differ (tie T2 broken)",
                "only_go": sorted(g - l)[:6], "only_model": sorted(l - g)[:6], "tie": True}, g
    return None, g


def correspond(ctx, C):
    st = S.SpecStats()
    rows = S.run(ctx, C, "speccat", 196, 1960) + S.run(ctx, C, "spec", 256, 4000)
    viol, ties = [], []
    compared = 0
    for r in rows:
        st.add(C, r)
        go, m = r["go"], r["m"]
        if not isinstance(go, dict) or not go.get("loaded") or "crash" in go or not m or "rules" not in m:
            continue
        if any("panic" in x for x in go.get("runs", [])):
            continue
        compared += 1
        breach, _ = compare(r["case"], go, m)
        if breach:
            (ties if breach.get("tie") else viol).append((r["case"], breach))
    npf, pfbad = S.pathfuncs_tie(ctx, C, ("extract", "strip"))
    nwhole, wbad = S.whole_model_tie(rows)
    ties = ties + pfbad + wbad
    out = viol[:3]
    if not out and ties:
        case, info = ties[0]
        out.append((case, dict(info, tie_cases=len(ties), no_failing_input=True)))
    cov = st.coverage(RULE)
    cov["documents_compared_rule_by_rule"] = compared
    cov["tie_mismatches"] = len(ties)
    cov["string_function_cases"] = npf
    cov["whole_model_verdicts_compared"] = nwhole
    return {"coverage": cov, "violations": out, "known": []}
