"""C04 - object recycling never changes an outcome, whatever came before."""
import json
import history_common as H
import schema_common as S

ASSUMPTIONS = [
    "sync.Pool hands an object to one Get at a time and never invents objects (modelled as: any pooled object or a new one)",
    "(d3) 'nothing is touched after its redeem' is established by the regenerated use-after-merge table plus scribbling on redeem over sampled histories, not by a theorem over the Go source",
    "the reference for whole-specification calls is the same call alone with fresh pools (SpecValidator cannot switch recycling off)",
]
RULE = ("random histories of 2-8 (thorough: 2-16) calls mixing AgainstSchema, recycling schema/parameter/header validators (each used "
        "once) and whole-specification validation, including nil data, json.Number conversion failures and invalid verdicts; subject: one "
        "set of pools for the whole history with every redeemed object scribbled over; reference: each call alone, fresh pools, recycling "
        "off where the API allows; compared: verdict, error-message set, warning set; the borrow/redeem trace is replayed in the Lean "
        "ownership machine; non-trivial = history with at least 3 calls of at least 2 kinds, distinct by hash")


def correspond(ctx, C):
    n = 120 if ctx.tier == "quick" else 6000
    if ctx.search:
        n *= 3
    rows, crash = H.run(C, "history", n, ctx.seed, ctx.tier, replay=S.replay_file(ctx, C))
    viol = []
    if crash:
        viol.append((crash["case"], {"what": "the process died during a history of recycling calls: " + H.first_line(crash["stderr_tail"]),
                                     "stderr_tail": crash["stderr_tail"]}))
    distinct, kinds, samples, calls, events = set(), {}, [], 0, 0
    for r in rows:
        case = r["case"]
        ks = H.call_kinds(case)
        calls += len(ks)
        events += (r["m"] or {}).get("events", 0)
        for k in ks:
            kinds[k] = kinds.get(k, 0) + 1
        if len(ks) >= 3 and len(set(ks)) >= 2:
            distinct.add(C.case_hash(case))
        if len(samples) < 2:
            samples.append({"calls": [{k: v for k, v in c.items() if k in ("kind", "doc")} for c in case["calls"]],
                            "subject_outcomes": [o.get("valid", "panic") for o in r["go"].get("subj", [])]})
    for case, i, ref, subj, kind in H.compare(rows):
        if kind == "outcome":
            viol.append((case, {"what": "call %d (%s) gives a different outcome through the shared pools than alone" % (i, case["calls"][i]["kind"]),
                                "call": i, "alone": ref, "through_pools": subj}))
        elif kind == "trace":
            viol.append((case, {"what": "pool traffic breaks the ownership discipline: %s" % subj}))
        else:
            viol.append((case, {"what": "harness could not run the history", "detail": subj}))
    cov = {"evaluations": len(rows), "distinct_nontrivial": len(distinct), "rule": RULE, "samples": samples,
           "traces_validated_against_impl": len(rows), "calls": calls, "pool_events_replayed": events, "call_kinds": kinds}
    return {"coverage": cov, "violations": viol[:3], "known": []}
