"""C05 - concurrent validations are race-free and independent of each other."""
import json, re
import schema_common as S

ASSUMPTIONS = [
    "the Go memory model, sync.Pool, atomic.Value and sync.Mutex behave as modelled (sequentially consistent steps, exclusive hand-out)",
    "the race detector and stress schedules support the tie and search for a failing schedule; they are not the proof",
    "schemas shared between goroutines contain no unexpanded $ref",
]
RULE = ("2-16 (thorough: 2-64) goroutines started on a barrier, each running 2-6 calls drawn from AgainstSchema, recycling schema/parameter/"
        "header validators, a shared long-lived validator, validate.Pattern, SetContinueOnErrors, NewSpecValidator and whole-specification "
        "validation; harness built with -race; every redeemed object is scribbled over; each call's outcome is compared with the outcome of "
        "the same call alone; non-trivial = at least 3 goroutines with at least 3 kinds of call, distinct by hash")


def race_reports(stderr):
    """-> list of (case id, report text)"""
    out, cur = [], None
    blocks = re.split(r"^CASE (\S+)$", stderr, flags=re.M)
    # blocks: [pre, id1, text1, id2, text2, ...]
    for i in range(1, len(blocks) - 1, 2):
        cid, text = blocks[i], blocks[i + 1]
        for m in re.finditer(r"WARNING: DATA RACE\n(.*?)\n==================", text, flags=re.S):
            out.append((cid, m.group(1)))
    return out


def race_site(report):
    fr = re.findall(r"^\s+(github\.com/go-openapi/validate\.[^\n]+)\n\s+(/repo/\S+)", report, flags=re.M)
    return sorted({"%s %s" % (f.split("(")[0], s.split(" ")[0]) for f, s in fr})


def correspond(ctx, C):
    n = 40 if ctx.tier == "quick" else 800
    if ctx.search:
        n *= 3
    try:
        rows = C.run_family("conc", n, ctx.seed, ctx.tier, replay=S.replay_file(ctx, C), race=True, timeout=3600 if ctx.tier == "quick" else 14400)
    except C.HarnessCrash as e:
        # the process died (fatal runtime error such as "concurrent map read and map write" cannot be recovered): the case it
        # was running is the failing input
        import history_common as H
        case = C.regenerate_case(e.fam, e.case_id, e.seed, e.tier, replay=S.replay_file(ctx, C))
        info = {"what": "the process died while running this case: " + H.first_line(e.stderr), "stderr_tail": e.stderr[-1500:]}
        cov = {"evaluations": 0, "distinct_nontrivial": 0, "rule": RULE, "samples": [], "died_in_case": e.case_id}
        return {"coverage": cov, "violations": [(case, info)], "known": []}
    stderr = C.LAST_STDERR["text"]
    viol, distinct, samples = [], set(), []
    calls, gor, kinds = 0, {}, {}
    by_id = {r["case"]["id"]: r["case"] for r in rows}
    for cid, rep in race_reports(stderr)[:3]:
        viol.append((by_id.get(cid), {"what": "data race reported by the Go race detector", "sites": race_site(rep), "report": rep[:1800]}))
    for r in rows:
        case, go = r["case"], r["go"]
        progs = case["programs"]
        gor[str(len(progs))] = gor.get(str(len(progs)), 0) + 1
        ks = set()
        for p in progs:
            for c in p:
                ks.add(c["kind"])
                kinds[c["kind"]] = kinds.get(c["kind"], 0) + 1
                calls += 1
        if len(progs) >= 3 and len(ks) >= 3:
            distinct.add(C.case_hash(case))
        if len(samples) < 2:
            samples.append({"goroutines": len(progs), "programs": [[c["kind"] for c in p] for p in progs]})
        if not isinstance(go, dict) or "ref" not in go:
            viol.append((case, {"what": "harness could not run the concurrent case", "detail": go}))
            continue
        for t, (a, b) in enumerate(zip(go["ref"], go["subj"])):
            for i, (x, y) in enumerate(zip(a, b)):
                if x != y:
                    viol.append((case, {"what": "goroutine %d call %d (%s) returns something else than when run alone" % (t, i, progs[t][i]["kind"]),
                                        "alone": x, "concurrent": y}))
    cov = {"evaluations": len(rows), "distinct_nontrivial": len(distinct), "rule": RULE, "samples": samples,
           "traces_validated_against_impl": len(rows), "calls": calls, "goroutine_histogram": gor, "call_kinds": kinds,
           "race_reports": len(race_reports(stderr))}
    return {"coverage": cov, "violations": viol[:3], "known": []}
