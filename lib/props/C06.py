"""C06 - schema validation always terminates with a verdict and never panics."""
import json
import schema_common as S

ASSUMPTIONS = [
    "termination of the code is observed (whole-run timeout), termination of the model is by construction",
    "panics raised inside go-openapi/spec (reference expansion), swag or reflect internals are outside the model",
    "json.Number carriers: the no-panic oracle is checked on the real code; the model covers the float64 carrier",
]

RULE = ("schemas from the in-vocabulary generator plus a malformed stream (empty enum/required, multipleOf<=0, invalid "
        "patterns, unknown types and formats, additionalItems without a tuple, keywords foreign to the instance kind), "
        "all option combinations (Swagger checks on/off, json.Number on/off); oracle: no panic other than the documented "
        "one for unresolvable references; model tie: panicked flag and verdict of Impl.validate equal the code's; "
        "non-trivial = schema with at least 3 keywords, distinct by hash")


def has_awkward_key(s):
    if isinstance(s, dict):
        for k, v in s.items():
            if "\\" in k or '"' in k:
                return True
            if has_awkward_key(v):
                return True
    elif isinstance(s, list):
        return any(has_awkward_key(v) for v in s)
    return False


def refs_resolve(schema):
    defs = (schema.get("definitions") or {}) if isinstance(schema, dict) else {}
    ok = True
    def walk(s):
        nonlocal ok
        if isinstance(s, dict):
            r = s.get("$ref")
            if isinstance(r, str):
                if not (r.startswith("#/definitions/") and r[len("#/definitions/"):] in defs):
                    ok = False
            for v in s.values():
                walk(v)
        elif isinstance(s, list):
            for v in s:
                walk(v)
    walk(schema)
    return ok


def classify_panic(case, obs, known):
    """returns finding id, "documented" for the documented panic on unresolvable references, or None"""
    msg = obs.get("panic", "")
    if obs.get("documented") and not refs_resolve(case.get("schema")):
        return "documented"
    for f in known:
        if f.get("panic_contains") and f["panic_contains"] in msg:
            if f.get("needs_awkward_key") and not has_awkward_key(case.get("schema")):
                continue
            return f["id"]
    return None


def correspond(ctx, C):
    n = 8000 if ctx.tier == "quick" else 150000
    if ctx.search:
        n *= 3
    known = S.known_for(C, "C06")
    st = S.Stats()
    viol, ties, attributed = [], [], {}
    documented = 0
    rows = []
    rp = S.replay_file(ctx, C)
    if rp:
        rows = C.run_family(ctx.replay["case"].get("fam", "schemamal"), 0, ctx.seed, ctx.tier, replay=rp)
    else:
        rows += C.run_family("schemamal", n, ctx.seed, ctx.tier)
        rows += C.run_family("schema", n // 2, ctx.seed + 1, ctx.tier)
    for r in rows:
        case, go, m = r["case"], r["go"], r["m"]
        st.add(C, r)
        if "undecodable" in go:
            continue
        number_mode = bool((case.get("opts") or {}).get("number"))
        for name in ("oneshot", "object"):
            obs = go[name]
            if "panic" in obs:
                fid = classify_panic(case, obs, known)
                if fid == "documented":
                    documented += 1
                elif fid:
                    attributed[fid] = attributed.get(fid, 0) + 1
                else:
                    viol.append((case, {"what": "validation panicked (%s entry point)" % name, "panic": obs["panic"][:400],
                                        "documented_message": obs.get("documented")}))
                break
        if number_mode or "bad" in (m or {}):
            continue
        ob = go["object"]
        im = m["impl"]
        gp = "panic" in ob
        if gp and classify_panic(case, ob, known):
            continue  # raised inside the reference expander: outside the model
        if gp != im["panic"] or (not gp and ob["valid"] != im["valid"]):
            ties.append((case, {"what": "model and implementation disagree on panic/verdict (tie T2 broken)",
                                "go": ob.get("valid", "panic"), "impl": im["valid"], "impl_panic": im["panic"]}))
    out_viol = []
    def still_panic(row):
        go = row["go"]
        return any("panic" in go.get(k, {}) and not classify_panic(row["case"], go[k], known) for k in ("oneshot", "object"))
    def still_tie(row):
        ob = row["go"].get("object", {})
        return ("panic" in ob) != row["m"]["impl"]["panic"] or ("valid" in ob and ob["valid"] != row["m"]["impl"]["valid"])
    for case, info in viol[:2]:
        want = info["panic"][:40]
        def same_panic(row, want=want):
            go = row["go"]
            return any(go.get(k, {}).get("panic", "")[:40] == want for k in ("oneshot", "object"))
        out_viol.append((S.minimise(C, case.get("fam", "schemamal"), case, same_panic), info))
    if ties and not out_viol:
        case, info = ties[0]
        info = dict(info, tie_cases=len(ties), no_failing_input=True)
        out_viol.append((S.minimise(C, case.get("fam", "schemamal"), case, still_tie), info))
    lines = []
    for f, row in S.replay_known(C, "C06", fam="schemamal"):
        go = row["go"]
        if any("panic" in go.get(k, {}) for k in ("oneshot", "object")):
            lines.append("%s (%s) [%s]" % (f["what"], f["site"], f["id"]))
    cov = st.coverage(RULE)
    cov["attributed_to_known_findings"] = attributed
    cov["documented_panics_on_unresolvable_refs"] = documented
    cov["tie_mismatches"] = len(ties)
    return {"coverage": cov, "violations": out_viol, "known": lines}
