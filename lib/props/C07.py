"""C07 - spec validation never panics on a document that loads."""
import spec_common as S

ASSUMPTIONS = [
    "loads, analysis, the $ref expander and YAML/JSON decoding are outside the model: a panic raised while *loading* is not counted (the property quantifies over documents accepted by the loader)",
    "termination of the code is observed with a per-case watchdog, not proved",
]

RULE = ("structurally mutated grammar and fixture documents (delete / retype / rename to awkward names such as a.a, x.x, empty / transplant / "
        "null / dangling and sibling $ref / duplicated list elements, 1-3 edits each) and grammar documents with rule-breaking edits; each loaded "
        "document is validated in both continue-on-errors modes, repeatedly, under recover; any panic or nil result is a breach")


def correspond(ctx, C):
    st = S.SpecStats()
    rows = S.run(ctx, C, "specmut", 160, 4000) + S.run(ctx, C, "specfix", 208, 208) + S.run(ctx, C, "speccat", 196, 1960) + S.run(ctx, C, "spec", 256, 4000)
    known = S.known_for(C, "C07")
    viol, attributed, sites = [], {}, {}
    for r in rows:
        st.add(C, r)
        go = r["go"]
        if not isinstance(go, dict):
            continue
        if "panic" in go:  # the harness itself recovered a panic outside the validation calls
            viol.append((r["case"], {"what": "panic outside the validation calls: " + str(go["panic"])[:300]}))
            continue
        if not go.get("loaded"):
            continue
        if "crash" in go:  # the child process running this document died (fatal runtime error) or hung
            site = go.get("where", "")
            sites[site] = sites.get(site, 0) + 1
            k = next((f for f in known if any(s_ in site for s_ in f.get("site_match", [])) and (r.get("m") or {}).get("circular")), None)
            if k:
                attributed[k["id"]] = attributed.get(k["id"], 0) + 1
            else:
                viol.append((r["case"], {"what": "spec validation did not return: " + str(go.get("fatal") or go.get("crash")), "where": site,
                                         "stderr": (go.get("stderr") or "")[:600]}))
            continue
        for run in go.get("runs", []):
            if "panic" in run or run.get("nilResult"):
                site = run.get("where", "")
                sites[site] = sites.get(site, 0) + 1
                unres = any(t.startswith(("unresolvedReferences", "invalidRef"))
                            for x in go.get("runs", []) for t in S.rule_tags(x.get("errors", []) or []))
                # … or the model sees a reference the definitions table does not know (the stop-early run may end at the
                # schema pass, before the reference stage says so)
                unres = unres or (isinstance(r.get("m"), dict) and r["m"].get("viewClosed") is False)
                k = next((f for f in known if any(s_ in site for s_ in f.get("site_match", []))
                          and (not f.get("panic_match") or f["panic_match"] in str(run.get("panic", "")))
                          and (not f.get("needs_unresolved_ref") or unres)
                          and not f.get("crash_only")), None)
                if k:
                    attributed[k["id"]] = attributed.get(k["id"], 0) + 1
                else:
                    viol.append((r["case"], {"what": "spec validation panicked on a document that loads" if "panic" in run else "spec validation returned a nil result",
                                             "panic": run.get("panic"), "where": site, "continue_on_errors": run.get("cont")}))
                break
    lines = []
    for f, row in S.replay_known(C, "C07"):
        if "crash" in row["go"] or any("panic" in run for run in row["go"].get("runs", [])):
            lines.append("%s (%s) [%s]" % (f["what"], f["site"], f["id"]))
    cov = st.coverage(RULE)
    # documents that meet the hypotheses of C07_whole_model_no_panic_exec (definitions table closed, every reference of the view known),
    # and the model's own panic flag / verdict on them (tie of the whole-of-Validate model)
    closed = [r for r in rows if isinstance(r.get("m"), dict) and r["m"].get("viewClosed")]
    cov["documents_meeting_theorem_hypotheses"] = len(closed)
    nwhole, wbad = S.whole_model_tie(rows)
    cov["whole_model_verdicts_compared"] = nwhole
    cov["tie_mismatches"] = len(wbad)
    cov["panic_sites"] = sites
    cov["attributed_to_known_findings"] = attributed
    # distinct by panic site
    seen, out = set(), []
    for case, info in viol:
        if info.get("where") not in seen:
            seen.add(info.get("where"))
            out.append((case, info))
    if not out and wbad:
        case, info = wbad[0]
        out.append((case, dict(info, tie_cases=len(wbad), no_failing_input=True)))
    return {"coverage": cov, "violations": out[:3], "known": lines}
