"""C08 - long-lived validators are stateless: reuse gives identical results."""
import schema_common as S

ASSUMPTIONS = [
    "a validator built without recycling is compared with itself on repetition and with the model (which is a pure function of definition and value)",
]
RULE = ("schema family: one non-recycling validator validates the same value twice; verdict, (code,name,kind) set and match "
        "count of the second call must equal the first and the Lean model's; reuse family: see coverage.reuse; "
        "non-trivial = schema with at least 3 keywords, distinct by hash")


def correspond(ctx, C):
    n = 10000 if ctx.tier == "quick" else 200000
    if ctx.search:
        n *= 3
    rows = C.run_family("schema", n, ctx.seed + 8, ctx.tier, replay=S.replay_file(ctx, C))
    st = S.Stats()
    viol, ties = [], []
    for r in rows:
        case, go, m = r["case"], r["go"], r["m"]
        st.add(C, r)
        if "undecodable" in go or "bad" in (m or {}):
            continue
        ob = go["object"]
        if "panic" in ob:
            continue
        ag = ob["again"]
        if ag["valid"] != ob["valid"] or S.go_errs(ag["errors"]) != S.go_errs(ob["errors"]) or ag["mc"] != ob["mc"]:
            viol.append((case, {"what": "second use of the same validator differs from the first",
                                "first": [ob["valid"], S.go_errs(ob["errors"]), ob["mc"]],
                                "second": [ag["valid"], S.go_errs(ag["errors"]), ag["mc"]]}))
        im = m["impl"]
        if not im["panic"] and (im["valid"] != ob["valid"] or im["mc"] != ob["mc"]):
            ties.append((case, {"what": "model (a pure function of schema and value) differs from the code (tie T2 broken)",
                                "go": [ob["valid"], ob["mc"]], "impl": [im["valid"], im["mc"]]}))
    out_viol = viol[:3]
    if ties and not out_viol:
        case, info = ties[0]
        out_viol.append((case, dict(info, tie_cases=len(ties), no_failing_input=True)))
    cov = st.coverage(RULE)
    cov["tie_mismatches"] = len(ties)
    return {"coverage": cov, "violations": out_viol, "known": []}
