"""C08 - long-lived validators are stateless: reuse gives identical results."""
import schema_common as S

ASSUMPTIONS = [
    "a validator built without recycling is compared with itself on repetition and with the model (which is a pure function of definition and value)",
]
RULE = ("schema family: one non-recycling validator validates the same value twice; verdict, (code,name,kind) set and match "
        "count of the second call must equal the first and the Lean model's; reuse family: 1-3 long-lived schema / parameter / header "
        "validators built without recycling, 4-12 calls in any order with repeats, each compared with a freshly built validator and "
        "with every earlier identical call; "
        "non-trivial = schema with at least 3 keywords, distinct by hash")


def correspond(ctx, C):
    n = 10000 if ctx.tier == "quick" else 200000
    if ctx.search:
        n *= 3
    rows = C.run_family("schema", n, ctx.seed + 8, ctx.tier, replay=S.replay_file(ctx, C))
    st = S.Stats()
    viol, ties = [], []
    for r in rows:
        case, go, m = r["case"], r["go"], r["m"]
        st.add(C, r)
        if "undecodable" in go or "bad" in (m or {}):
            continue
        ob = go["object"]
        if "panic" in ob:
            continue
        ag = ob["again"]
        if ag["valid"] != ob["valid"] or S.go_errs(ag["errors"]) != S.go_errs(ob["errors"]) or ag["mc"] != ob["mc"]:
            viol.append((case, {"what": "second use of the same validator differs from the first",
                                "first": [ob["valid"], S.go_errs(ob["errors"]), ob["mc"]],
                                "second": [ag["valid"], S.go_errs(ag["errors"]), ag["mc"]]}))
        im = m["impl"]
        if not im["panic"] and (im["valid"] != ob["valid"] or im["mc"] != ob["mc"]):
            ties.append((case, {"what": "model (a pure function of schema and value) differs from the code (tie T2 broken)",
                                "go": [ob["valid"], ob["mc"]], "impl": [im["valid"], im["mc"]]}))
    # reuse family: long-lived schema / parameter / header validators, any order, repeats
    import json as _json
    nr = 3000 if ctx.tier == "quick" else 60000
    if ctx.search:
        nr *= 3
    reuse = {"cases": 0, "calls": 0, "repeated_calls": 0, "kinds": {}, "panics_both": 0}
    rrows = [] if S.replay_file(ctx, C) and ctx.replay["case"].get("fam") != "reuse" else \
        C.run_family("reuse", nr, ctx.seed + 80, ctx.tier, replay=S.replay_file(ctx, C))
    for r in rrows:
        case, go = r["case"], r["go"]
        if not isinstance(go, dict) or "long" not in go:
            viol.append((case, {"what": "harness could not run the case", "detail": go}))
            continue
        reuse["cases"] += 1
        seen = {}
        for i, (call, lo, fr) in enumerate(zip(case["calls"], go["long"], go["fresh"])):
            reuse["calls"] += 1
            kind = case["validators"][call["v"]]["kind"]
            reuse["kinds"][kind] = reuse["kinds"].get(kind, 0) + 1
            if "panic" in lo and "panic" in fr:
                reuse["panics_both"] += 1
                continue
            if lo != fr:
                viol.append((case, {"what": "call %d: a %s validator built without recycling, used before, answers differently from a freshly "
                                            "built one on the same value" % (i, kind), "value": call["value"], "long_lived": lo, "fresh": fr}))
                break
            key = _json.dumps([call["v"], call["value"]], sort_keys=True)
            if key in seen:
                reuse["repeated_calls"] += 1
                if seen[key][1] != lo:
                    viol.append((case, {"what": "calls %d and %d are the same call (%s validator, same value) and answer differently" % (seen[key][0], i, kind),
                                        "value": call["value"], "earlier": seen[key][1], "later": lo}))
                    break
            else:
                seen[key] = (i, lo)
    out_viol = viol[:3]
    if ties and not out_viol:
        case, info = ties[0]
        out_viol.append((case, dict(info, tie_cases=len(ties), no_failing_input=True)))
    cov = st.coverage(RULE)
    cov["tie_mismatches"] = len(ties)
    cov["reuse"] = reuse
    return {"coverage": cov, "violations": out_viol, "known": []}
