"""C09 - spec defaults and examples are judged exactly as their schema judges them."""
import spec_common as S

ASSUMPTIONS = [
    "judging a value against its own schema is the business of C01 (schemas) and C16 (simple parameters, headers, items): the traversal theorems take the judges as parameters; the correspondence plugs in the Lean models of those validators",
    "the view the traversal works on (expanded parameters and responses, definitions as written) is built by the driver; $ref expansion by go-openapi/spec is outside the model",
    "documents whose definitions refer to themselves are excluded (expansion leaves a $ref behind and the validators built for judging recurse without end: known finding of C07)",
]

RULE = ("grammar documents with a good or bad default/example at every location kind the Swagger schema allows (simple parameters and their items, "
        "headers and their items, body and response schemas at any depth through properties, items, tuple items, additionalProperties, allOf, "
        "definitions, per-media-type response examples), names from a pool with a.a, x.x, s, items, default, additionalProperties, allOf[0]; "
        "the Lean model enumerates every location; (tie) the locations Go reports = those of the model with the visited-path bookkeeping as in the code; "
        "(property) reported <=> rejected by its own schema at every location, differences must be attributed to a listed finding")


def roots_hit(names, roots):
    out = set()
    for r in roots:
        if any(n == r or n.startswith(r + ".") for n in names):
            out.add(r)
    return out


def observe(go_run, m, which):
    """-> (go, impl, spec) sets of 'bad here' observations for defaults (errors) or examples (warnings)"""
    kind = "default" if which == "defaults" else "example"
    locs = m[kind + "Locs"] or []
    roots = [l for l in locs if not l.startswith(("param:", "header:", "items:"))]
    gmsgs = go_run["errors"] if which == "defaults" else go_run["warnings"]
    gnamed = go_run["errorsC"] if which == "defaults" else go_run["warningsC"]
    gnames = [nm for _, nm in gnamed]
    col = "errs" if which == "defaults" else "warns"
    def model(side):
        names = [e[1] for e in side[col] if e[0] != 422]
        wr = {e[2] for e in side[col] if e[0] == 422 and e[2].startswith(kind) and not e[2].startswith(kind + "s")}
        return {"at:" + r for r in roots_hit(names, roots)} | wr
    g = {"at:" + r for r in roots_hit(gnames, roots)} | {t for t in (S.classify9(x) for x in gmsgs) if t and t.startswith(kind)}
    return g, model(m[which]), model(m[which + "Spec"])


def correspond(ctx, C):
    st = S.SpecStats()
    rows = S.run(ctx, C, "speccat", 196, 1960) + S.run(ctx, C, "spec", 256, 4000)
    known = S.known_for(C, "C09")
    viol, ties, attributed = [], [], {}
    nloc = {"default": 0, "example": 0}
    compared = 0
    stop_checked = 0
    for r in rows:
        st.add(C, r)
        go, m = r["go"], r["m"]
        if not isinstance(go, dict) or not go.get("loaded") or "crash" in go or not m or m.get("circular") or m.get("defaults") is None:
            continue
        cont = S.runs_of(go, True, "same")
        if not cont or "errors" not in cont[0] or not m.get("localRefsOk"):
            continue
        if any(t.startswith(("unresolvedReferences", "invalidRef")) for t in S.rule_tags(cont[0]["errors"])):
            continue
        compared += 1
        for which in ("defaults", "examples"):
            kind = "default" if which == "defaults" else "example"
            nloc[kind] += len(m[kind + "Locs"] or [])
            g, impl, spec = observe(cont[0], m, which)
            if g != impl and g != spec:
                # the code departs from the specification and the model of the code does not reproduce it: no listed
                # finding can explain it, and this document is the failing input
                viol.append((r["case"], {"what": "%s: a value its schema rejects is not reported, or an accepted one is (the model of the code as it was does not do this)" % which,
                                         "not_reported": sorted(spec - g)[:6], "reported_but_accepted": sorted(g - spec)[:6]}))
            elif g != impl:
                ties.append((r["case"], {"what": "%s: locations reported by the implementation and by the model differ (tie T2 broken)" % which,
                                         "only_go": sorted(g - impl)[:6], "only_model": sorted(impl - g)[:6]}))
            elif g != spec:
                missed, extra = spec - g, g - spec
                k = next((f for f in known if f.get("switch") == "visitedHeuristic"), None)
                if k and not extra:
                    attributed[k["id"]] = attributed.get(k["id"], 0) + 1
                else:
                    viol.append((r["case"], {"what": "%s: a value its schema rejects is not reported, or an accepted one is" % which,
                                             "not_reported": sorted(missed)[:6], "reported_but_accepted": sorted(extra)[:6]}))
        # the default mode (stop at the first failing stage): once a run has reached the value stages - it reports a default
        # error, or no error at all - its examples are judged as well, exactly as they are with continue-on-errors
        stop = S.runs_of(go, False, "same")
        if stop and "errors" in stop[0] and "warningsC" in stop[0]:
            s_errs = stop[0]["errors"]
            reached = (not s_errs) or any((S.classify9(x) or "").startswith("default") for x in s_errs)
            if reached:
                stop_checked += 1
                g_s, _, _ = observe(stop[0], m, "examples")
                g_c, _, _ = observe(cont[0], m, "examples")
                if g_s != g_c:
                    viol.append((r["case"], {"what": "examples: when stopping at the first failing stage the run reaches the value stages (it reports %s), "
                                                     "but does not judge the examples as it does with continue-on-errors" % ("a default error" if s_errs else "no error"),
                                             "only_with_continue": sorted(g_c - g_s)[:6], "only_when_stopping": sorted(g_s - g_c)[:6]}))
    npf, pfbad = S.pathfuncs_tie(ctx, C, ("visited",))
    ties = ties + pfbad
    out = viol[:3]
    if not out and ties:
        case, info = ties[0]
        out.append((case, dict(info, tie_cases=len(ties), no_failing_input=True)))
    lines = []
    for f, row in S.replay_known(C, "C09"):
        go, m = row["go"], row["m"]
        cont = S.runs_of(go, True, "same")
        if cont and m.get("defaults") is not None:
            for which in ("defaults", "examples"):
                g, impl, spec = observe(cont[0], m, which)
                if g != spec:
                    lines.append("%s (%s) [%s]" % (f["what"], f["site"], f["id"]))
                    break
    cov = st.coverage(RULE)
    cov["documents_compared"] = compared
    cov["stop_mode_runs_reaching_value_stages"] = stop_checked
    cov["locations_enumerated"] = nloc
    cov["tie_mismatches"] = len(ties)
    cov["string_function_cases"] = npf
    cov["attributed_to_known_findings"] = attributed
    return {"coverage": cov, "violations": out, "known": lines}
