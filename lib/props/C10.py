"""C10 - spec validation is deterministic, monotone, and keeps warnings apart."""
import spec_common as S

ASSUMPTIONS = [
    "Go re-randomises every map range on each call: repeated validations in one process sample iteration orders; the theorems quantify over all orders",
    "loads/analysis/spec expansion are pre-processing outside the model",
    "the circular-ancestry message may name any member of the cycle (the property says so)",
]

RULE = ("grammar documents (spec) and structurally mutated grammar/fixture documents (specmut), each validated 7 times: "
        "both continue-on-errors settings x (same document object twice, freshly loaded document), plus the document re-serialised "
        "with reversed member order, plus a validator object that has validated another document before; a sixth of the grammar documents go through a JSON file, a sixth through a YAML file. Compared: "
        "error and warning message sets of all runs of one mode, stop-mode errors included in continue-mode errors, "
        "IsValid <=> no errors, separately returned warnings = warnings of the main result, no duplicate messages")


import re as _re

_UNRES = [(_re.compile(r'^(some references could not be resolved in spec\. First found: ).*$', _re.S), r'\1<resolver error>'),
          (_re.compile(r'^(could not resolve reference in .* to \$ref [^ ]*: ).*$', _re.S), r'\1<resolver error>')]


def norm_unresolved(msgs):
    """the two unresolved-reference messages embed the error text of go-openapi/spec's reference resolver"""
    out = set()
    for m in msgs:
        for rx, rep in _UNRES:
            if rx.match(m):
                m = rx.sub(rep, m)
                break
        out.add(m)
    return out


def judge(case, go):
    """returns a list of (what, detail) breaches for one document"""
    out = []
    rs = go.get("runs", [])
    if any("panic" in r or r.get("nilResult") for r in rs):
        return out  # C07's business
    for cont in (False, True):
        group = [r for r in rs if r.get("cont") == cont]
        if not group:
            continue
        def errs(r):
            return S.norm_msgs_circular(r["errors"])
        # (a) fresh validations of the document: same object first time, freshly loaded, re-serialised, repetitions
        fresh = [r for r in group if r["tag"] in ("same", "reloaded", "reordered", "usedvalidator")]
        # (b) the same *loads.Document object validated again (second time, and the corpus repetitions)
        again = [r for r in group if r["tag"] not in ("same", "reloaded", "reordered", "usedvalidator")]
        e0, w0 = errs(fresh[0]), set(fresh[0]["warnings"])
        for r in fresh[1:]:
            if errs(r) != e0:
                if norm_unresolved(errs(r)) == norm_unresolved(e0):
                    out.append(("the resolver error embedded in an unresolved-reference message differs between two validations of the same document",
                                {"only_first": sorted(e0 - errs(r))[:6], "only_second": sorted(errs(r) - e0)[:6], "first_run_errors": fresh[0]["errors"]}))
                else:
                    out.append(("error messages differ between two validations of the same document (mode continue=%s, %s vs %s)" % (cont, fresh[0]["tag"], r["tag"]),
                                {"only_first": sorted(e0 - errs(r))[:6], "only_second": sorted(errs(r) - e0)[:6], "first_run_errors": fresh[0]["errors"]}))
                break
            if set(r["warnings"]) != w0:
                out.append(("warning messages differ between two validations of the same document (mode continue=%s, %s vs %s)" % (cont, fresh[0]["tag"], r["tag"]),
                            {"only_first": sorted(w0 - set(r["warnings"]))[:6], "only_second": sorted(set(r["warnings"]) - w0)[:6]}))
                break
        for r in again:
            if errs(r) != e0 or set(r["warnings"]) != w0:
                out.append(("validating the same document object a second time gives different messages (mode continue=%s)" % cont,
                            {"only_first": sorted((e0 - errs(r)) | (w0 - set(r["warnings"])))[:6],
                             "only_second": sorted((errs(r) - e0) | (set(r["warnings"]) - w0))[:6], "first_run_errors": fresh[0]["errors"]}))
                break
    stop = [r for r in rs if r.get("cont") is False]
    cont = [r for r in rs if r.get("cont") is True]
    if stop and cont:
        missing = S.norm_msgs_circular(stop[0]["errors"]) - S.norm_msgs_circular(cont[0]["errors"])
        if missing and not (norm_unresolved(S.norm_msgs_circular(stop[0]["errors"])) - norm_unresolved(S.norm_msgs_circular(cont[0]["errors"]))):
            out.append(("the resolver error embedded in an unresolved-reference message differs between the stop-early and the continue-on-errors run",
                        {"only_first": sorted(missing)[:6], "only_second": [], "first_run_errors": stop[0]["errors"]}))
        elif missing:
            out.append(("an error reported when stopping early is not reported with continue-on-errors", {"missing": sorted(missing)[:6]}))
        if stop[0]["valid"] != cont[0]["valid"]:
            out.append(("verdict differs between the two continue-on-errors settings", {"stop": stop[0]["valid"], "continue": cont[0]["valid"]}))
    for r in rs:
        if r["valid"] != (len(r["errors"]) == 0):
            out.append(("verdict is not 'no errors' (warnings must never invalidate)", {"valid": r["valid"], "errors": r["errors"][:4], "warnings": r["warnings"][:4]}))
            break
        if set(r["wErrors"]) != set(r["warnings"]) or r["wWarnings"]:
            out.append(("separately returned warnings are not exactly the warnings of the main result",
                        {"returned": r["wErrors"][:6], "main": r["warnings"][:6], "returned_warnings_field": r["wWarnings"][:3]}))
            break
        if r.get("dup"):
            out.append(("a message is reported twice", {}))
            break
    return out


def attributable(f, what, detail):
    """a breach is covered by a listed finding only if it is of that kind and the finding's precondition holds on this document"""
    import re
    ms = f.get("match")
    ms = [ms] if isinstance(ms, str) else (ms or [])
    if not any(x in what for x in ms):
        return False
    if f.get("needs_circular") and not detail.get("circular"):
        return False
    if f.get("first_run_has") and not any(re.search(f["first_run_has"], m) for m in detail.get("first_run_errors", [])):
        return False
    if f.get("first_run_invalid") and not detail.get("first_run_errors"):
        return False
    if f.get("needs_path_collision") and not detail.get("path_collision"):
        return False
    if f.get("diff_not_rules"):
        diff = list(detail.get("only_first", [])) + list(detail.get("only_second", [])) + list(detail.get("missing", []))
        if not diff or any(S.classify(m) is not None for m in diff):
            return False
    if f.get("diff_only"):
        diff = list(detail.get("only_first", [])) + list(detail.get("only_second", []))
        if not diff or not all(re.search(f["diff_only"], m) for m in diff):
            return False
    return True


def correspond(ctx, C):
    st = S.SpecStats()
    rows = S.run(ctx, C, "speccat", 196, 1960) + S.run(ctx, C, "spec", 256, 4000) + S.run(ctx, C, "specmut", 160, 4000) + S.run(ctx, C, "specfix", 208, 208)
    known = S.known_for(C, "C10")
    viol, attributed = [], {}
    orders = 0
    for r in rows:
        st.add(C, r)
        go = r["go"]
        if not isinstance(go, dict) or not go.get("loaded"):
            continue
        orders += len(go.get("runs", []))
        for what, detail in judge(r["case"], go):
            detail = dict(detail, path_collision=bool((r.get("m") or {}).get("pathCollision")), circular=bool((r.get("m") or {}).get("circular")))
            k = next((f for f in known if attributable(f, what, detail)), None)
            if k:
                attributed[k["id"]] = attributed.get(k["id"], 0) + 1
            else:
                viol.append((r["case"], dict({k_: v for k_, v in detail.items() if k_ not in ("first_run_errors", "path_collision", "circular")}, what=what)))
    lines = []
    for f, row in S.replay_known(C, "C10"):
        if any(attributable(f, w, dict(d, path_collision=bool((row.get("m") or {}).get("pathCollision")), circular=bool((row.get("m") or {}).get("circular")))) for w, d in judge(row["case"], row["go"])):
            lines.append("%s (%s) [%s]" % (f["what"], f["site"], f["id"]))
    cov = st.coverage(RULE)
    cov["attributed_to_known_findings"] = attributed
    cov["iteration_orders_sampled"] = orders
    # the pipeline theorems are about the model of the whole of Validate: its verdict is the code's, in both modes
    nwhole, wbad = S.whole_model_tie(rows)
    cov["whole_model_verdicts_compared"] = nwhole
    cov["tie_mismatches"] = len(wbad)
    out = viol[:3]
    if not out and wbad:
        case, info = wbad[0]
        out.append((case, dict(info, tie_cases=len(wbad), no_failing_input=True)))
    return {"coverage": cov, "violations": out, "known": lines}
