"""C11 - a panic during one validation does not corrupt later validations."""
import json
import history_common as H
import schema_common as S

ASSUMPTIONS = [
    "panics are injected through a caller-supplied strfmt format checker at its k-th invocation within one chosen call",
    "leaked (never redeemed) objects are harmless: a leaked object is simply never reused",
]
RULE = ("histories of 3-7 recycling schema validations whose schemas carry a caller-supplied string format; the checker panics at its "
        "k-th invocation (k=1..4) inside one chosen call; the caller recovers; every later call is compared with the same call alone in "
        "fresh pools, and the borrow/redeem trace is replayed in the Lean ownership machine (a double redeem shows as a second R without "
        "B); non-trivial = the injected panic actually fired and at least one call follows it, distinct by hash")


def correspond(ctx, C):
    n = 600 if ctx.tier == "quick" else 12000
    if ctx.search:
        n *= 3
    rows, crash = H.run(C, "historypanic", n, ctx.seed, ctx.tier, replay=S.replay_file(ctx, C))
    viol = []
    if crash:
        viol.append((crash["case"], {"what": "after a recovered panic a later validation killed the process: " + H.first_line(crash["stderr_tail"]),
                                     "stderr_tail": crash["stderr_tail"]}))
    fired, distinct, samples, events = 0, set(), [], 0
    for r in rows:
        case, go = r["case"], r["go"]
        events += (r["m"] or {}).get("events", 0)
        subj = go.get("subj", []) if isinstance(go, dict) else []
        pc = case.get("panicCall", 0)
        did = pc < len(subj) and "panic" in subj[pc] and "injected panic" in subj[pc]["panic"]
        if did:
            fired += 1
            if pc < len(subj) - 1:
                distinct.add(C.case_hash(case))
        if len(samples) < 2:
            samples.append({"panicAt": case.get("panicAt"), "panicCall": pc, "calls": len(case["calls"]),
                            "subject_outcomes": [o.get("valid", "panic") for o in subj]})
    for case, i, ref, subj, kind in H.compare(rows):
        if kind == "outcome":
            pc = case.get("panicCall", 0)
            if i == pc and isinstance(subj, dict) and "injected panic" in subj.get("panic", ""):
                continue  # the call that was aborted on purpose
            viol.append((case, {"what": "call %d after the recovered panic (in call %d) differs from the same call in a fresh process" % (i, pc),
                                "call": i, "fresh": ref, "after_panic": subj}))
        elif kind == "trace":
            viol.append((case, {"what": "pool traffic breaks the ownership discipline after the panic: %s" % subj}))
        else:
            viol.append((case, {"what": "harness could not run the history", "detail": subj}))
    cov = {"evaluations": len(rows), "distinct_nontrivial": len(distinct), "rule": RULE, "samples": samples,
           "traces_validated_against_impl": len(rows), "panics_fired": fired, "pool_events_replayed": events}
    return {"coverage": cov, "violations": viol[:3], "known": []}
