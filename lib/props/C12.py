"""C12 - validation treats its inputs as read-only (schema/instance part; documents: see spec family)."""
import schema_common as S
import spec_common as SP

ASSUMPTIONS = [
    "aliasing is decided by a syntactic classification of write targets (extractor) plus deep snapshots, not by a heap semantics of Go",
    "schemas containing $ref or id are expanded in place by design and are outside the claim",
]
RULE = ("spec and specmut families: doc.Raw() bytes before/after 7+ validations of every loaded document, and the parsed doc.Spec() "
        "(JSON snapshot) for accepted documents without self-referential definitions; "
        "schema and schemamal families: JSON snapshots of the instance and of the parsed schema before and after "
        "AgainstSchema and (*SchemaValidator).Validate; schema snapshots compared only for reference-free schemas; "
        "non-trivial = schema with at least 3 keywords, distinct by hash")


def correspond(ctx, C):
    n = 10000 if ctx.tier == "quick" else 200000
    if ctx.search:
        n *= 3
    rp = S.replay_file(ctx, C)
    rows = C.run_family("schema", n, ctx.seed + 12, ctx.tier, replay=rp)
    if not rp:
        rows += C.run_family("schemamal", n // 2, ctx.seed + 13, ctx.tier)
    st = S.Stats()
    viol = []
    checked_schema = 0
    carried_checked = 0
    for r in rows:
        case, go = r["case"], r["go"]
        st.add(C, r)
        if "undecodable" in go:
            continue
        for name in ("oneshot", "object"):
            obs = go[name]
            if "panic" in obs:
                continue
            if not obs.get("dataSame", True):
                viol.append((case, {"what": "the instance was modified by validation (%s)" % name}))
            if not go.get("hasRef"):
                checked_schema += 1
                if not obs.get("schemaSame", True):
                    viol.append((case, {"what": "a reference-free schema was modified by validation (%s)" % name}))
        ca = go.get("carried")
        if isinstance(ca, dict) and "panic" not in ca:
            carried_checked += 1
            if not ca.get("carriedSame", True):
                viol.append((case, {"what": "an object instance that holds Go struct values was modified by validation: a struct (or pointer) "
                                            "member of the caller's map was replaced"}))
    # documents: bytes never change; the parsed specification does not change for accepted, non-circular documents
    docs = raw_checked = spec_checked = 0
    if not rp:
        for r in SP.run(ctx, C, "speccat", 196, 1960) + SP.run(ctx, C, "spec", 256, 4000) + SP.run(ctx, C, "specmut", 160, 4000) + SP.run(ctx, C, "specfix", 208, 208):
            go, m = r["go"], r["m"] or {}
            if not isinstance(go, dict) or not go.get("loaded") or "crash" in go or "runs" not in go:
                continue
            docs += 1
            if "rawSame" in go:
                raw_checked += 1
                if not go["rawSame"]:
                    viol.append((r["case"], {"what": "validating a specification changed the bytes of the loaded document (doc.Raw())"}))
            accepted = all(x.get("valid") for x in go["runs"]) and go["runs"]
            if accepted and not m.get("circular", True):
                spec_checked += 1
                if not go.get("specSame", True):
                    viol.append((r["case"], {"what": "validating an accepted specification without self-referential definitions changed the parsed specification (doc.Spec())"}))
    cov = st.coverage(RULE)
    cov["documents"] = docs
    cov["document_bytes_compared"] = raw_checked
    cov["accepted_document_specs_compared"] = spec_checked
    cov["schema_snapshots_compared"] = checked_schema
    cov["instances_carrying_go_structs_compared"] = carried_checked
    return {"coverage": cov, "violations": viol[:3], "known": []}
