"""C12 - validation treats its inputs as read-only (schema/instance part; documents: see spec family)."""
import schema_common as S

ASSUMPTIONS = [
    "aliasing is decided by a syntactic classification of write targets (extractor) plus deep snapshots, not by a heap semantics of Go",
    "schemas containing $ref or id are expanded in place by design and are outside the claim",
]
RULE = ("schema and schemamal families: JSON snapshots of the instance and of the parsed schema before and after "
        "AgainstSchema and (*SchemaValidator).Validate; schema snapshots compared only for reference-free schemas; "
        "non-trivial = schema with at least 3 keywords, distinct by hash")


def correspond(ctx, C):
    n = 10000 if ctx.tier == "quick" else 200000
    if ctx.search:
        n *= 3
    rp = S.replay_file(ctx, C)
    rows = C.run_family("schema", n, ctx.seed + 12, ctx.tier, replay=rp)
    if not rp:
        rows += C.run_family("schemamal", n // 2, ctx.seed + 13, ctx.tier)
    st = S.Stats()
    viol = []
    checked_schema = 0
    for r in rows:
        case, go = r["case"], r["go"]
        st.add(C, r)
        if "undecodable" in go:
            continue
        for name in ("oneshot", "object"):
            obs = go[name]
            if "panic" in obs:
                continue
            if not obs.get("dataSame", True):
                viol.append((case, {"what": "the instance was modified by validation (%s)" % name}))
            if not go.get("hasRef"):
                checked_schema += 1
                if not obs.get("schemaSame", True):
                    viol.append((case, {"what": "a reference-free schema was modified by validation (%s)" % name}))
    cov = st.coverage(RULE)
    cov["schema_snapshots_compared"] = checked_schema
    return {"coverage": cov, "violations": viol[:3], "known": []}
