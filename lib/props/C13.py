"""C13 - numeric verdicts depend on the number, not on the Go type that carries it."""
import json
import schema_common as S

ASSUMPTIONS = [
    "values and bounds are exactly representable in their carriers and within +-2^53 (generator pools)",
    "IEEE-754 division and swag.IsFloat64AJSONInteger are oracles (computed by the harness with the same library); the float multipleOf path is executed, not proved",
    "Go's uint64(float) conversion of negative values wraps modulo 2^64 on this platform (observed by the correspondence check)",
]
RULE = ("every Go numeric kind x values at and around the kind's limits x bounds (integral, fractional, negative, zero, huge) and "
        "factors (incl. decimal fractions, zero, negative) through MaximumNativeType/MinimumNativeType/MultipleOfNativeType, AgainstSchema "
        "with typed data and ParamValidator; compared: the code, the Lean model (which calls the definitions regenerated from values.go) "
        "and exact rational arithmetic; non-trivial = bound within 1 of the value or fractional/negative, distinct by hash")


def is_int_kind(k):
    return not k.startswith("float")


def frac(x):
    return float(x) != int(float(x))


def bounds_of(c):
    sch = c.get("schema") or c.get("param") or {}
    if c["op"] == "native":
        return [("factor" if c["fn"] == "mul" else "bound", c["bound"])]
    return [(k, sch[k]) for k in ("minimum", "maximum", "multipleOf") if k in sch]


def triggers(c):
    """ids of the listed findings whose trigger condition holds on this case"""
    t = set()
    bs = bounds_of(c)
    intk = is_int_kind(c["kind"])
    if intk and any(frac(b) for _, b in bs):
        t.add("C13-integer-carrier-truncates-bound")
    if c["kind"].startswith("uint") and any(n in ("factor", "multipleOf") and float(b) < 0 for n, b in bs):
        t.add("C13-unsigned-negative-factor")
    sch = c.get("schema") or c.get("param") or {}
    if not intk and (any(n in ("factor", "multipleOf") for n, _ in bs) or sch.get("type") == "integer"):
        t.add("C13-float-tolerance")   # float division with tolerance-based integer test / integer test of a float carrier
    if c["op"] == "param" and c["param"].get("type") == "integer":
        fmt = c["param"].get("format", "")
        lo, hi = (-2**31, 2**31 - 1) if fmt == "int32" else (-2**63, 2**63 - 1)
        if any(frac(b) or not (lo <= float(b) <= hi) for _, b in bs) or not (lo <= float(c["val"]) <= hi):
            t.add("C13-bound-outside-declared-range")
    return t


def nontrivial(c):
    return any(frac(b) or float(b) < 0 or abs(float(b) - float(c["val"])) <= 1 for _, b in bounds_of(c))


def correspond(ctx, C):
    n = 20000 if ctx.tier == "quick" else 400000
    if ctx.search:
        n *= 3
    rows = C.run_family("values", n, ctx.seed, ctx.tier, replay=S.replay_file(ctx, C))
    known = {f["id"]: f for f in S.known_for(C, "C13")}
    viol, ties, distinct, samples, attributed, ops, kinds = [], [], set(), [], {}, {}, {}
    for r in rows:
        c, g, m = r["case"], r["go"], r["m"] or {}
        ops[c["op"] + ":" + str(c.get("fn", ""))] = ops.get(c["op"] + ":" + str(c.get("fn", "")), 0) + 1
        kinds[c["kind"]] = kinds.get(c["kind"], 0) + 1
        if nontrivial(c):
            distinct.add(C.case_hash(c))
        if len(samples) < 4:
            samples.append({k: v for k, v in c.items() if k not in ("oracles", "fam")})
        if not isinstance(g, dict) or "panic" in g:
            viol.append((c, {"what": "helper panicked", "go": g}))
            continue
        if "bad" in m:
            continue
        gv = g.get("res", g.get("valid"))
        if gv != m["impl"]:
            ties.append((c, {"what": "model and implementation disagree (tie broken)", "go": gv, "impl": m["impl"], "spec": m["spec"]}))
        if gv != m["spec"]:
            t = triggers(c) & set(known)
            if t and gv == m["impl"]:   # a listed finding explains it only if the model of the code reproduces the code's answer
                for k in t:
                    attributed[k] = attributed.get(k, 0) + 1
            else:
                viol.append((c, {"what": "verdict differs from exact arithmetic and no listed finding covers this input",
                                 "go": gv, "exact": m["spec"], "triggers_present": sorted(triggers(c))}))
    out = viol[:3]
    if ties and not out:
        case, info = ties[0]
        out.append((case, dict(info, tie_cases=len(ties), no_failing_input=True)))
    lines = []
    if known:
        path = C.os.path.join(C.WORK, "known_C13_%d.jsonl" % C.os.getpid())
        with open(path, "w") as fh:
            for f in known.values():
                w = dict(f["witness"]); w["fam"] = "values"; w["id"] = f["id"]
                fh.write(json.dumps(w) + "\n")
        for f, row in zip(known.values(), C.run_family("values", 0, 0, "quick", replay=path)):
            gv = row["go"].get("res", row["go"].get("valid"))
            if gv != row["m"]["spec"]:
                lines.append("%s (%s) [%s]" % (f["what"], f["site"], f["id"]))
        C.os.unlink(path)
    cov = {"evaluations": len(rows), "distinct_nontrivial": len(distinct), "rule": RULE, "samples": samples,
           "traces_validated_against_impl": len(rows), "ops": ops, "kinds": kinds,
           "attributed_to_known_findings": attributed, "tie_mismatches": len(ties)}
    return {"coverage": cov, "violations": out, "known": lines}
