"""C14 - the exported value helpers implement their textbook definitions for every input."""
import json
import schema_common as S

ASSUMPTIONS = [
    "Go regexp and the strfmt registry are oracles",
    "strings.EqualFold is modelled by ASCII case folding (the generator's strings stay in that range for EnumCase)",
    "for invalid UTF-8 there is no textbook length: the model's rune count (one per invalid byte, as utf8.RuneCountInString) is the reference",
]
RULE = ("each of MinLength, MaxLength, Pattern, UniqueItems, Enum, EnumCase, MinItems, MaxItems, Required, RequiredString, "
        "RequiredNumber, ReadOnly, FormatOf on typed Go values (all integer/float widths, valid and invalid UTF-8, nested slices and "
        "maps, typed and untyped nils, defined string types, every operation context); each helper is called twice and its arguments "
        "snapshotted (purity); compared: the code, the Lean model and the textbook definition; non-trivial = slice/enum argument "
        "with at least 2 elements or a multi-byte string, distinct by hash")


def _is_num(e):
    return isinstance(e, dict) and isinstance(e.get("v"), (int, float)) and not isinstance(e.get("v"), bool)


def has_cross_type(v):
    """two equal values of different Go types somewhere in one slice: numerically equal numbers of different
    numeric types, or a defined string type and a plain string with the same text"""
    if not isinstance(v, dict):
        return False
    if v.get("t", "").startswith("[]"):
        nums, strs = {}, {}
        for e in v.get("v") or []:
            if _is_num(e):
                nums.setdefault(float(e["v"]), set()).add(e["t"])
            if isinstance(e, dict) and e.get("t") in ("string", "named"):
                strs.setdefault(e.get("hex", ""), set()).add(e["t"])
            if has_cross_type(e):
                return True
        return any(len(ts) > 1 for ts in nums.values()) or any(len(ts) > 1 for ts in strs.values())
    if v.get("t") == "map":
        return any(has_cross_type(e) for e in (v.get("v") or {}).values())
    return False


def nested_nums(v, top=True):
    """(value, type) of the numbers nested inside a slice or map (not the value itself)"""
    out = set()
    if not isinstance(v, dict):
        return out
    if v.get("t", "").startswith("[]"):
        for e in v.get("v") or []:
            if _is_num(e):
                out.add((float(e["v"]), e["t"]))
            out |= nested_nums(e, False)
    elif v.get("t") == "map":
        for e in (v.get("v") or {}).values():
            if _is_num(e):
                out.add((float(e["v"]), e["t"]))
            out |= nested_nums(e, False)
    return out


def cross_type_anywhere(v):
    """numerically equal numbers of different Go types anywhere below the slice (also in different elements: two maps or
    inner slices that are equal as values but hold their numbers in different types)"""
    nums = {}
    for (x, ty) in nested_nums(v):
        nums.setdefault(x, set()).add(ty)
    return any(len(ts) > 1 for ts in nums.values())


def triggers(c):
    t = set()
    if c["op"] == "UniqueItems" and (has_cross_type(c.get("data")) or cross_type_anywhere(c.get("data"))):
        t.add("C14-unique-items-distinguishes-numeric-types")
    if c["op"] in ("Enum", "EnumCase"):
        d = c.get("data") or {}
        if _is_num(d):
            t.add("C14-enum-lossy-conversion")   # a number converted to the member's type (wrap, truncation, rune)
        # numbers nested in a slice/map: the conversion fallback works on the outer value only
        dn = nested_nums(d)
        for mem in ((c.get("enum") or {}).get("v") or []):
            mn = nested_nums(mem)
            if any(x == y and tx != ty for (x, tx) in dn for (y, ty) in mn):
                t.add("C14-enum-nested-numeric-types")
    return t


def nontrivial(c):
    for k in ("data", "enum"):
        v = c.get(k)
        if isinstance(v, dict) and isinstance(v.get("v"), list) and len(v["v"]) >= 2:
            return True
    return len(c.get("hex", "")) >= 4


def correspond(ctx, C):
    n = 20000 if ctx.tier == "quick" else 400000
    if ctx.search:
        n *= 3
    rows = C.run_family("helpers", n, ctx.seed, ctx.tier, replay=S.replay_file(ctx, C))
    known = {f["id"]: f for f in S.known_for(C, "C14")}
    viol, ties, distinct, samples, attributed, ops = [], [], set(), [], {}, {}
    for r in rows:
        c, g, m = r["case"], r["go"], r["m"] or {}
        ops[c["op"]] = ops.get(c["op"], 0) + 1
        if nontrivial(c):
            distinct.add(C.case_hash(c))
        if len(samples) < 4:
            samples.append({k: v for k, v in c.items() if k not in ("oracles", "fam")})
        if not isinstance(g, dict) or "panic" in g:
            viol.append((c, {"what": "helper panicked", "go": g}))
            continue
        if g["err"] != g["again"] or g["note"]:
            viol.append((c, {"what": "helper is not pure: second call differs or an argument changed", "go": g}))
        if "bad" in m:
            continue
        if g["err"] != m["impl"]:
            ties.append((c, {"what": "model and implementation disagree (tie broken)", "go": g["err"], "impl": m["impl"], "spec": m["spec"]}))
        if g["err"] != m["spec"]:
            t = triggers(c) & set(known)
            if t and g["err"] == m["impl"]:   # a listed finding explains it only if the model of the code reproduces it
                for k in t:
                    attributed[k] = attributed.get(k, 0) + 1
            else:
                viol.append((c, {"what": "%s disagrees with its textbook definition and no listed finding covers this input" % c["op"],
                                 "go_error": g["err"], "textbook_error": m["spec"]}))
    out = viol[:3]
    if ties and not out:
        case, info = ties[0]
        out.append((case, dict(info, tie_cases=len(ties), no_failing_input=True)))
    lines = []
    if known:
        path = C.os.path.join(C.WORK, "known_C14_%d.jsonl" % C.os.getpid())
        with open(path, "w") as fh:
            for f in known.values():
                w = dict(f["witness"]); w["fam"] = "helpers"; w["id"] = f["id"]
                fh.write(json.dumps(w) + "\n")
        for f, row in zip(known.values(), C.run_family("helpers", 0, 0, "quick", replay=path)):
            if row["go"].get("err") != row["m"]["spec"]:
                lines.append("%s (%s) [%s]" % (f["what"], f["site"], f["id"]))
        C.os.unlink(path)
    cov = {"evaluations": len(rows), "distinct_nontrivial": len(distinct), "rule": RULE, "samples": samples,
           "traces_validated_against_impl": len(rows), "ops": ops, "attributed_to_known_findings": attributed,
           "tie_mismatches": len(ties)}
    return {"coverage": cov, "violations": out, "known": lines}
