"""C15 - pattern matching always uses the expression that was asked for."""
import json
import schema_common as S
from props.C05 import race_reports, race_site

ASSUMPTIONS = [
    "Go's regexp package is the oracle; Regexp.String() returns the source text the expression was compiled from",
    "atomic.Value and sync.Mutex behave as modelled (sequentially consistent steps)",
]
RULE = ("1-16 (thorough: 1-64) goroutines, each 3-10 uses of validate.Pattern / the pattern keyword / patternProperties over a per-case "
        "pool of classic, never-seen-before and invalid patterns; every outcome is compared with Go's regexp compiled from the very "
        "pattern; afterwards the cache snapshot is audited (each entry's source text equals its key, no invalid pattern cached, no "
        "valid pattern used in the case missing); harness built with -race; non-trivial = at least 2 goroutines using at least 3 "
        "distinct patterns, distinct by hash")


def correspond(ctx, C):
    n = 400 if ctx.tier == "quick" else 2500
    if ctx.search:
        n *= 3
    try:
        rows = C.run_family("rexp", n, ctx.seed, ctx.tier, replay=S.replay_file(ctx, C), race=True, timeout=3600 if ctx.tier == "quick" else 14400)
    except C.HarnessCrash as e:
        # the process died (fatal runtime error such as "concurrent map read and map write" cannot be recovered): the case it
        # was running is the failing input
        import history_common as H
        case = C.regenerate_case(e.fam, e.case_id, e.seed, e.tier, replay=S.replay_file(ctx, C))
        info = {"what": "the process died while running this case: " + H.first_line(e.stderr), "stderr_tail": e.stderr[-1500:]}
        cov = {"evaluations": 0, "distinct_nontrivial": 0, "rule": RULE, "samples": [], "died_in_case": e.case_id}
        return {"coverage": cov, "violations": [(case, info)], "known": []}
    stderr = C.LAST_STDERR["text"]
    viol, distinct, samples = [], set(), []
    by_id = {r["case"]["id"]: r["case"] for r in rows}
    calls, invalid_seen, first_time = 0, 0, 0
    for cid, rep in race_reports(stderr)[:2]:
        viol.append((by_id.get(cid), {"what": "data race reported by the Go race detector", "sites": race_site(rep), "report": rep[:1800]}))
    for r in rows:
        case, go = r["case"], r["go"]
        progs = case["programs"]
        pats = {c["pattern"] for p in progs for c in p}
        if len(progs) >= 2 and len(pats) >= 3:
            distinct.add(C.case_hash(case))
        if len(samples) < 2:
            samples.append({"goroutines": len(progs), "first_program": progs[0][:4]})
        if not isinstance(go, dict) or "subj" not in go:
            viol.append((case, {"what": "harness could not run the case", "detail": go}))
            continue
        for t, (a, b) in enumerate(zip(go["want"], go["subj"])):
            for i, (x, y) in enumerate(zip(a, b)):
                calls += 1
                if x.get("invalid"):
                    invalid_seen += 1
                if x != y:
                    viol.append((case, {"what": "goroutine %d use %d of pattern %r on %r: library says %s, Go's regexp says %s" % (
                        t, i, progs[t][i]["pattern"], progs[t][i]["str"], y, x)}))
        if go["wrongEntries"]:
            viol.append((case, {"what": "cache holds an entry that does not belong to its key", "entries": go["wrongEntries"][:5]}))
        for a in go.get("afterwards") or []:
            viol.append((case, {"what": "after the goroutines have finished, pattern %r on %r alone: library says %s, Go's regexp says match=%s "
                                        "(a pattern answers with another pattern's expression)" % (a[0], a[1], a[2], a[3])}))
            break
        if go["lostEntries"]:
            viol.append((case, {"what": "a valid pattern used in this case is missing from the cache afterwards", "patterns": go["lostEntries"][:5]}))
    cov = {"evaluations": len(rows), "distinct_nontrivial": len(distinct), "rule": RULE, "samples": samples,
           "traces_validated_against_impl": len(rows), "uses_compared": calls, "invalid_pattern_uses": invalid_seen,
           "race_reports": len(race_reports(stderr))}
    return {"coverage": cov, "violations": viol[:3], "known": []}
