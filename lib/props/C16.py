"""C16 - parameter, header and items validators follow Swagger simple-schema semantics."""
import json
import schema_common as S

ASSUMPTIONS = [
    "Go regexp, the strfmt registry and the float oracles are computed by the harness with the libraries the code uses",
    "enum members are JSON-decoded values (float64, string, bool); nested enum members are outside the vocabulary",
]
RULE = ("simple schemas (type string/number/integer/boolean/array, formats of the declared type, enum, numeric, string and array "
        "constraints, nested items to depth 3, thorough: 4) x typed Go values of matching and non-matching kinds (all integer and float "
        "widths, strings, slices of those, occasional nil elements), through ParamValidator and HeaderValidator with and without "
        "recycling; compared: the code, the Lean chain model, the simple-schema specification; non-trivial = array schema or at least "
        "two constraints, distinct by hash")


def has_items_format(s):
    it = s.get("items")
    while it:
        if it.get("format") in ("date", "email"):
            return True
        it = it.get("items")
    return False


def string_format_anywhere(s):
    while s:
        if s.get("type") == "string" and s.get("format"):
            return True
        s = s.get("items")
    return False


def cross_numeric(v):
    if isinstance(v, dict) and v.get("t") == "[]interface":
        nums = {}
        for e in v["v"]:
            if isinstance(e.get("v"), (int, float)) and not isinstance(e.get("v"), bool):
                nums.setdefault(float(e["v"]), set()).add(e["t"])
            if cross_numeric(e):
                return True
        return any(len(t) > 1 for t in nums.values())
    return False


def has_slice_value(v):
    return isinstance(v, dict) and v.get("t", "").startswith("[]")


def numeric_anywhere(v):
    if not isinstance(v, dict):
        return False
    if isinstance(v.get("v"), (int, float)) and not isinstance(v.get("v"), bool):
        return True
    return any(numeric_anywhere(e) for e in (v.get("v") if isinstance(v.get("v"), list) else []))


def triggers(c):
    t = set()
    if has_items_format(c["schema"]):
        t.add("C16-items-format-ignored")
    if string_format_anywhere(c["schema"]) and (has_slice_value(c["value"])):
        t.add("C16-format-bypasses-type")
    if cross_numeric(c["value"]):
        t.add("C16-unique-items-numeric-types")
    if numeric_anywhere(c["value"]):
        t.add("C16-numeric-deviations")   # C13's findings seen through a parameter (float tolerance, range gate, conversions in enum)
    return t


def nontrivial(c):
    s = c["schema"]
    return s.get("type") == "array" or len(s) >= 3


def correspond(ctx, C):
    n = 15000 if ctx.tier == "quick" else 300000
    if ctx.search:
        n *= 3
    rows = C.run_family("simple", n, ctx.seed, ctx.tier, replay=S.replay_file(ctx, C))
    known = {f["id"]: f for f in S.known_for(C, "C16")}
    viol, ties, distinct, samples, attributed = [], [], set(), [], {}
    valid = 0
    for r in rows:
        c, g, m = r["case"], r["go"], r["m"] or {}
        if nontrivial(c):
            distinct.add(C.case_hash(c))
        if len(samples) < 3:
            samples.append({k: v for k, v in c.items() if k not in ("oracles", "fam")})
        p, rc = g.get("plain", {}), g.get("recycled", {})
        if "panic" in p or "panic" in rc:
            viol.append((c, {"what": "validator panicked", "panic": (p.get("panic") or rc.get("panic"))[:300]}))
            continue
        if "bad" in m:
            continue
        if p != rc:
            viol.append((c, {"what": "recycling validator differs from the plain one", "plain": p, "recycled": rc}))
        valid += 1 if p["valid"] else 0
        if m.get("panic") or p["valid"] != m["impl"]:
            ties.append((c, {"what": "model and implementation disagree (tie broken)", "go": p["valid"], "impl": m["impl"], "impl_panic": m.get("panic")}))
        if p["valid"] != m["spec"]:
            t = triggers(c) & set(known)
            if t and p["valid"] == m["impl"] and not m.get("panic"):   # a listed finding explains it only if the model of the code reproduces the code's answer
                for k in t:
                    attributed[k] = attributed.get(k, 0) + 1
            else:
                viol.append((c, {"what": "verdict differs from simple-schema semantics and no listed finding covers this input",
                                 "go_valid": p["valid"], "spec_valid": m["spec"]}))
    out = viol[:3]
    if ties and not out:
        case, info = ties[0]
        out.append((case, dict(info, tie_cases=len(ties), no_failing_input=True)))
    lines = []
    if known:
        path = C.os.path.join(C.WORK, "known_C16_%d.jsonl" % C.os.getpid())
        ws = [f for f in known.values() if "witness" in f and "schema" in f["witness"]]
        with open(path, "w") as fh:
            for f in ws:
                w = dict(f["witness"]); w["fam"] = "simple"; w["id"] = f["id"]
                fh.write(json.dumps(w) + "\n")
        for f, row in zip(ws, C.run_family("simple", 0, 0, "quick", replay=path)):
            p = row["go"].get("plain", {})
            if "valid" in p and p["valid"] != row["m"]["spec"]:
                lines.append("%s (%s) [%s]" % (f["what"], f["site"], f["id"]))
        C.os.unlink(path)
    cov = {"evaluations": len(rows), "distinct_nontrivial": len(distinct), "rule": RULE, "samples": samples,
           "traces_validated_against_impl": len(rows), "valid_fraction": round(valid / max(1, len(rows)), 3),
           "attributed_to_known_findings": attributed, "tie_mismatches": len(ties)}
    return {"coverage": cov, "violations": out, "known": lines}
