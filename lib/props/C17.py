"""C17 - every rejection is explained by well-formed, correctly located errors."""
import schema_common as S

ASSUMPTIONS = [
    "an error is identified by (code, Name) for field-level errors and by (422, kind, quoted path) for composite messages",
    "location accuracy is proved on the model and transferred by equality of the model's and the code's error sets",
]
RULE = ("schema family with random root paths: invalid <=> at least one error; one-shot error is a 422 composite listing "
        "exactly the messages of the validator-object result, without duplicates; every error name is the root path or an "
        "extension of it; the (code, name, kind) set equals the Lean model's; non-trivial = invalid verdict with a schema "
        "of at least 3 keywords, distinct by hash")


def extends(root, name):
    return root == "" or name == root or name.startswith(root + ".")


def correspond(ctx, C):
    n = 10000 if ctx.tier == "quick" else 200000
    if ctx.search:
        n *= 3
    rows = C.run_family("schema", n, ctx.seed + 17, ctx.tier, replay=S.replay_file(ctx, C))
    st = S.Stats()
    viol, ties = [], []
    invalid_seen = set()
    for r in rows:
        case, go, m = r["case"], r["go"], r["m"]
        st.add(C, r)
        if "undecodable" in go or "bad" in (m or {}):
            continue
        ob, os_, o0 = go["object"], go["oneshot"], go["object0"]
        if "panic" in ob or "panic" in os_ or "panic" in o0:
            continue
        root = case.get("path", "")
        if ob["valid"] != (len(ob["errors"]) == 0):
            viol.append((case, {"what": "verdict and error list disagree", "valid": ob["valid"], "errors": len(ob["errors"])}))
        if not ob["valid"] and S.keywords(case["schema"]) >= 3:
            invalid_seen.add(C.case_hash(case))
        if os_["valid"]:
            if not o0["valid"]:
                viol.append((case, {"what": "one-shot returned nil but the underlying result has errors"}))
        else:
            msgs = [e["m"] for e in os_["errors"]]
            if os_.get("code") != 422:
                viol.append((case, {"what": "one-shot error is not a 422 composite", "code": os_.get("code")}))
            if len(set(msgs)) != len(msgs):
                viol.append((case, {"what": "one-shot composite lists a message twice", "messages": msgs}))
            if sorted(set(msgs)) != sorted({e["m"] for e in o0["errors"]}):
                viol.append((case, {"what": "one-shot composite does not list exactly the messages of the underlying result",
                                    "oneshot": sorted(set(msgs)), "result": sorted({e["m"] for e in o0["errors"]})}))
        for e in ob["errors"]:
            name = e.get("n", "")
            if e["c"] == 422 and e.get("k") in ("noAdditionalItems", "invalidTypeConversion", "other"):
                continue
            if not extends(root, name):
                viol.append((case, {"what": "error name does not extend the caller's root path", "root": root, "name": name, "message": e["m"]}))
        ge, ie = S.go_errs(ob["errors"]), S.impl_errs(m["impl"]["errs"])
        if [list(x) for x in ge] != [list(x) for x in ie]:
            ties.append((case, {"what": "error set of the code differs from the model's (tie T2 broken)",
                                "only_go": [x for x in ge if x not in ie], "only_model": [x for x in ie if x not in ge]}))
    out_viol = viol[:3]
    if ties and not out_viol:
        case, info = ties[0]
        def still(row):
            ob = row["go"].get("object", {})
            return "errors" in ob and [list(x) for x in S.go_errs(ob["errors"])] != [list(x) for x in S.impl_errs(row["m"]["impl"]["errs"])]
        out_viol.append((S.minimise(C, "schema", case, still), dict(info, tie_cases=len(ties), no_failing_input=True)))
    cov = st.coverage(RULE)
    cov["distinct_nontrivial"] = len(invalid_seen)
    cov["tie_mismatches"] = len(ties)
    return {"coverage": cov, "violations": out_viol, "known": []}
