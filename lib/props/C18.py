"""C18 - applying defaults fills exactly the absent members that have a default."""
import schema_common as S
import post_common as P

ASSUMPTIONS = [
    "objects of JSON-decoded data form a tree: positions in the instance stand for Go map identity",
    "which anyOf/oneOf alternative is selected follows the validator's verdicts (first valid / the single valid one)",
]
RULE = ("object-heavy schemas with defaults at every depth (properties, patternProperties, additionalProperties, items, tuple items, "
        "allOf/anyOf/oneOf) x schema-directed valid instances with arbitrary subsets of members present; post.ApplyDefaults on the real "
        "result vs. the Lean model (entries of the validator tree + applyDefaults) vs. the C18 statement evaluated from Spec.applies; "
        "non-trivial = at least one default applied, distinct by hash")


SWITCH_FINDING = {
    "requiredByDefault": "alternative-selected-through-required-default",
    "floatTolerance": "alternative-selected-through-float-tolerance",
    "nullSkipsComposition": "alternative-selected-through-null-early-exit",
    "formatBypassesType": "alternative-selected-through-format-bypass",
    "ignoresSchemaIdKeys": "alternative-selected-through-schema-id-exemption",
    "leaksImportant": "alternative-selected-through-important-leak"
}


def correspond(ctx, C):
    n = 8000 if ctx.tier == "quick" else 150000
    if ctx.search:
        n *= 3
    rows = C.run_family("post", n, ctx.seed, ctx.tier, replay=S.replay_file(ctx, C))
    known = {f["id"] for f in S.known_for(C, "C18")}
    not_spec_valid, attributed = 0, 0
    by_finding = {}
    viol, ties, distinct, samples, valid, applied = [], [], set(), [], 0, 0
    for r in rows:
        c, g, m = r["case"], r["go"], r["m"] or {}
        if not isinstance(g, dict) or "panic" in g:
            viol.append((c, {"what": "validation or post-processing panicked", "go": g}))
            continue
        if not g.get("valid") or "bad" in m:
            continue
        if not m.get("specValid"):
            # valid for the code but not under draft 4 (a C01 finding): outside "valid data"
            not_spec_valid += 1
            continue
        valid += 1
        before, after = P.canon(c["data"]), P.canon(g["defaulted"])
        if after != before:
            applied += 1
            distinct.add(C.case_hash(c))
            if len(samples) < 3:
                samples.append({"schema": c["schema"], "data": c["data"], "defaulted": g["defaulted"]})
        if P.canon(g["defaultedRecycled"]) != after:
            viol.append((c, {"what": "a recycling validator records different schemata: defaults differ", "plain": after, "recycled": P.canon(g["defaultedRecycled"])}))
        if P.canon(m["defaulted"]) != after:
            ties.append((c, {"what": "defaulted data of the code differs from the model's (tie broken)", "go": after, "model": P.canon(m["defaulted"])}))
        complaints = P.check_defaults(P.applies_index(m), before, after)
        if complaints and P.canon(m["defaulted"]) == after:
            # the model of the code reproduces the answer: is it the consequence of one open C01 deviation (or of several)?
            expl = [sw for sw, o in (m.get("bySwitch") or {}).items()
                    if not P.check_defaults(P.applies_index(m), before, P.canon(o["defaulted"]))]
            if not expl and not P.check_defaults(P.applies_index(m), before, P.canon((m.get("repaired") or {}).get("defaulted"))):
                expl = list((m.get("bySwitch") or {}).keys())
            ids = ["C18-" + SWITCH_FINDING[sw] for sw in expl if sw in SWITCH_FINDING]
            if ids and all(i in known for i in ids):
                attributed += 1
                for i in ids:
                    by_finding[i] = by_finding.get(i, 0) + 1
                complaints = []
        if complaints:
            viol.append((c, {"what": "C18 violated: " + complaints[0], "all": complaints[:5], "defaulted": after}))
    out = viol[:3]
    if ties and not out:
        case, info = ties[0]
        out.append((case, dict(info, tie_cases=len(ties), no_failing_input=True)))
    cov = {"evaluations": len(rows), "distinct_nontrivial": len(distinct), "rule": RULE, "samples": samples,
           "traces_validated_against_impl": valid, "valid_instances": valid, "cases_with_defaults_applied": applied,
           "tie_mismatches": len(ties), "valid_for_code_but_not_draft4": not_spec_valid,
           "attributed_to_known_findings": attributed, "attributed_by_finding": by_finding}
    lines = []
    for f in [f for f in S.known_for(C, "C18") if f.get("witness")]:
        path = C.os.path.join(C.WORK, "known_C18_%d.jsonl" % C.os.getpid())
        w = dict(f["witness"]); w["fam"] = "post"; w["id"] = f["id"]
        open(path, "w").write(C.json.dumps(w) + "\n")
        row = C.run_family("post", 0, 0, "quick", replay=path)[0]
        C.os.unlink(path)
        if row["go"].get("valid") and P.check_defaults(P.applies_index(row["m"]), P.canon(w["data"]), P.canon(row["go"]["defaulted"])):
            lines.append("%s (%s) [%s]" % (f["what"], f["site"], f["id"]))
    return {"coverage": cov, "violations": out, "known": lines}
