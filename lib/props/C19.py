"""C19 - pruning removes exactly the members no schema describes."""
import schema_common as S
import post_common as P

ASSUMPTIONS = [
    "objects of JSON-decoded data form a tree: positions in the instance stand for Go map identity",
    "which anyOf/oneOf alternative is selected follows the validator's verdicts",
]
RULE = ("the post family: valid instances carrying described and undescribed members at every depth; post.Prune on the real result vs. "
        "the Lean model vs. the C19 statement evaluated from Spec.applies; pruned data is validated and pruned again (must remove nothing "
        "more when the schema has no anyOf/oneOf); non-trivial = at least one member pruned, distinct by hash")


SWITCH_FINDING = {
    "requiredByDefault": "alternative-selected-through-required-default",
    "floatTolerance": "alternative-selected-through-float-tolerance",
    "nullSkipsComposition": "alternative-selected-through-null-early-exit",
    "formatBypassesType": "alternative-selected-through-format-bypass",
    "ignoresSchemaIdKeys": "alternative-selected-through-schema-id-exemption",
    "leaksImportant": "alternative-selected-through-important-leak"
}


def correspond(ctx, C):
    n = 8000 if ctx.tier == "quick" else 150000
    if ctx.search:
        n *= 3
    rows = C.run_family("post", n, ctx.seed + 19, ctx.tier, replay=S.replay_file(ctx, C))
    known = {f["id"] for f in S.known_for(C, "C19")}
    not_spec_valid, attributed = 0, 0
    by_finding = {}
    viol, ties, distinct, samples, valid, pruned_n, idem = [], [], set(), [], 0, 0, 0
    for r in rows:
        c, g, m = r["case"], r["go"], r["m"] or {}
        if not isinstance(g, dict) or "panic" in g:
            viol.append((c, {"what": "validation or post-processing panicked", "go": g}))
            continue
        if not g.get("valid") or "bad" in m:
            continue
        if not m.get("specValid"):
            # valid for the code but not under draft 4 (a C01 finding): outside "valid data"
            not_spec_valid += 1
            continue
        valid += 1
        before, after = P.canon(c["data"]), P.canon(g["pruned"])
        if after != before:
            pruned_n += 1
            distinct.add(C.case_hash(c))
            if len(samples) < 3:
                samples.append({"schema": c["schema"], "data": c["data"], "pruned": g["pruned"]})
        if P.canon(m["pruned"]) != after:
            ties.append((c, {"what": "pruned data of the code differs from the model's (tie broken)", "go": after, "model": P.canon(m["pruned"])}))
        complaints = P.check_prune(P.applies_index(m), before, after)
        if complaints and P.canon(m["pruned"]) == after:
            # the model of the code reproduces the answer: is it the consequence of one open C01 deviation (or of several)?
            expl = [sw for sw, o in (m.get("bySwitch") or {}).items()
                    if not P.check_prune(P.applies_index(m), before, P.canon(o["pruned"]))]
            if not expl and not P.check_prune(P.applies_index(m), before, P.canon((m.get("repaired") or {}).get("pruned"))):
                expl = list((m.get("bySwitch") or {}).keys())
            ids = ["C19-" + SWITCH_FINDING[sw] for sw in expl if sw in SWITCH_FINDING]
            if ids and all(i in known for i in ids):
                attributed += 1
                for i in ids:
                    by_finding[i] = by_finding.get(i, 0) + 1
                complaints = []
        if complaints:
            viol.append((c, {"what": "C19 violated: " + complaints[0], "all": complaints[:5], "pruned": after}))
        if not P.has_any_one_of(c["schema"]):
            idem += 1
            if not g.get("prunedValid"):
                viol.append((c, {"what": "pruned data is no longer valid against the same schema", "pruned": after}))
            elif P.canon(g["prunedTwice"]) != after:
                viol.append((c, {"what": "validating and pruning the pruned data again removes more", "once": after, "twice": P.canon(g["prunedTwice"])}))
    out = viol[:3]
    if ties and not out:
        case, info = ties[0]
        out.append((case, dict(info, tie_cases=len(ties), no_failing_input=True)))
    cov = {"evaluations": len(rows), "distinct_nontrivial": len(distinct), "rule": RULE, "samples": samples,
           "traces_validated_against_impl": valid, "valid_instances": valid, "cases_with_members_pruned": pruned_n,
           "idempotence_checked": idem, "tie_mismatches": len(ties), "attributed_by_finding": by_finding}
    return {"coverage": cov, "violations": out, "known": P.known_lines(C, S, "C19", P.check_prune, "pruned")}
