"""C20 - results combine as ordered sets with additive counts."""
import json

ASSUMPTIONS = [
    "messages are identified by their text (AddErrors compares e.Error())",
    "mutating calls on a nil *Result are outside the property (they dereference nil) and are not generated",
    "Go slices realise value semantics for Errors/Warnings: probed by post-merge mutations and raw element writes, not proved",
]


def nontrivial(case):
    ops = case.get("ops", [])
    kinds = {o["op"] for o in ops}
    return len(ops) >= 3 and bool(kinds & {"merge", "mergeAsErrors", "mergeAsWarnings"})


def correspond(ctx, C):
    n = 4000 if ctx.tier == "quick" else 40000
    if ctx.search:
        n *= 3
    replay_file = None
    if ctx.replay and ctx.replay.get("case"):
        replay_file = C.os.path.join(C.WORK, "replay_%d.jsonl" % C.os.getpid())
        C.os.makedirs(C.WORK, exist_ok=True)
        with open(replay_file, "w") as fh:
            fh.write(json.dumps(ctx.replay["case"]) + "\n")
    rows = C.run_family("result", n, ctx.seed, ctx.tier, replay=replay_file)
    viol, seen, opcount, samples = [], set(), {}, []
    steps = 0
    for r in rows:
        case, go, m = r["case"], r["go"], r["m"]
        for o in case["ops"]:
            opcount[o["op"]] = opcount.get(o["op"], 0) + 1
        steps += len(case["ops"])
        if nontrivial(case):
            seen.add(C.case_hash(case))
        if len(samples) < 3:
            samples.append({"case": case, "go_final": (go.get("states") or [None])[-1] if isinstance(go, dict) else go})
        if not isinstance(go, dict) or "panic" in go:
            viol.append((case, {"what": "Go side panicked on an API-only sequence", "go": go}))
            continue
        if "bad" in m:
            viol.append((case, {"what": "driver rejected the case", "m": m}))
            continue
        if go["states"] != m["states"] or go["nilq"] != m["nilq"]:
            k = next((i for i, (a, b) in enumerate(zip(go["states"], m["states"])) if a != b), None)
            viol.append((case, {"what": "result state differs from the ordered-set model after step %s" % k,
                                "step": k, "go": go["states"][k] if k is not None else go["nilq"],
                                "model": m["states"][k] if k is not None else m["nilq"]}))
        elif not m.get("nodup", True):
            # duplicates can only come from raw setErr writes; API-only prefixes are covered by run_nodup
            pass
    cov = {"evaluations": len(rows), "distinct_nontrivial": len(seen),
           "rule": "random op sequences (AddErrors/AddWarnings/Merge/MergeAsErrors/MergeAsWarnings/Inc, fresh/nil slots, self-merge, raw element writes) over 2-4 results; after every step all results and queries are compared with the Lean model; non-trivial = at least 3 ops including a merge variant, distinct by case hash",
           "samples": samples, "traces_validated_against_impl": len(rows), "steps_compared": steps,
           "op_distribution": opcount}
    return {"coverage": cov, "violations": viol[:5], "known": []}
