"""Shared evaluation of the `schema` / `schemamal` harness families (C01 C06 C08 C12 C17)."""
import json, os
import shrink

C01_SWITCHES = ["nullSkipsComposition", "enumSkipsNil", "addlItemsBound", "requiredByDefault",
                "floatTolerance", "formatBypassesType", "ignoresSchemaIdKeys", "leaksImportant"]


def go_errs(lst):
    return sorted({(e["c"], e.get("n", ""), e.get("k", "")) for e in lst})


def impl_errs(lst):
    return sorted({(e[0], e[1], e[2].split(":")[0].replace("IMPORTANT!", "") if e[0] in (422, 0) else "") for e in lst})


def keywords(s):
    n = 0
    if isinstance(s, dict):
        n += len(s)
        for v in s.values():
            n += keywords(v)
    elif isinstance(s, list):
        for v in s:
            n += keywords(v)
    return n


def depth(v):
    if isinstance(v, dict):
        return 1 + max([depth(x) for x in v.values()] or [0])
    if isinstance(v, list):
        return 1 + max([depth(x) for x in v] or [0])
    return 0


class Stats:
    def __init__(self):
        self.n = 0
        self.valid = 0
        self.kw = {}
        self.depth = {}
        self.switch_hits = {}
        self.go_panics = 0
        self.codes = {}
        self.distinct = set()
        self.samples = []

    def add(self, C, row):
        case, go = row["case"], row["go"]
        self.n += 1
        ob = go.get("object", {}) if isinstance(go, dict) else {}
        if ob.get("valid"):
            self.valid += 1
        if "panic" in ob:
            self.go_panics += 1
        for e in ob.get("errors", []) or []:
            self.codes[str(e["c"])] = self.codes.get(str(e["c"]), 0) + 1
        sch = case.get("schema")
        def walk(s):
            if isinstance(s, dict):
                for k, v in s.items():
                    self.kw[k] = self.kw.get(k, 0) + 1
                    if k not in ("enum", "default", "required"):
                        walk(v)
            elif isinstance(s, list):
                for v in s:
                    walk(v)
        walk(sch)
        d = depth(case.get("data"))
        self.depth[str(d)] = self.depth.get(str(d), 0) + 1
        if keywords(sch) >= 3:
            self.distinct.add(C.case_hash(case))
        if len(self.samples) < 3:
            self.samples.append({"schema": sch, "data": case.get("data"), "path": case.get("path"),
                                 "go_valid": ob.get("valid"), "go_errors": go_errs(ob.get("errors", []) or [])})

    def coverage(self, rule):
        top = dict(sorted(self.kw.items(), key=lambda kv: -kv[1])[:40])
        return {"evaluations": self.n, "distinct_nontrivial": len(self.distinct), "rule": rule,
                "samples": self.samples, "traces_validated_against_impl": self.n,
                "valid_fraction": round(self.valid / max(1, self.n), 3), "keyword_hits": top,
                "instance_depth_histogram": self.depth, "error_codes_hit": self.codes,
                "go_panics": self.go_panics, "switches_triggered": self.switch_hits}


def replay_file(ctx, C):
    if ctx.replay and ctx.replay.get("case"):
        path = os.path.join(C.WORK, "replay_%d.jsonl" % os.getpid())
        os.makedirs(C.WORK, exist_ok=True)
        with open(path, "w") as fh:
            fh.write(json.dumps(ctx.replay["case"]) + "\n")
        return path
    return None


def evaluator(C, fam):
    """evaluate(list of cases) -> rows, for the shrinker"""
    def ev(cases):
        path = os.path.join(C.WORK, "shrink_%d.jsonl" % os.getpid())
        with open(path, "w") as fh:
            for i, c in enumerate(cases):
                c = {k: v for k, v in c.items() if k not in ("go", "oracles")}
                c["id"] = "s%d" % i
                c["fam"] = fam
                fh.write(json.dumps(c) + "\n")
        rows = C.run_family(fam, 0, 0, "quick", replay=path)
        os.unlink(path)
        return rows
    return ev


def minimise(C, fam, case, still):
    try:
        return shrink.shrink({k: v for k, v in case.items() if k not in ("go", "oracles")}, evaluator(C, fam), still)
    except Exception as e:  # shrinking is best effort
        C.log("shrink failed:", e)
        return case


def known_for(C, pid):
    return [f for f in C.load_known_findings(pid) if f.get("status") == "known"]


def replay_known(C, pid, fam="schema"):
    """re-run the witnesses of the known findings on the real code; returns (lines, still_failing ids)"""
    known = known_for(C, pid)
    if not known:
        return []
    cases = []
    for f in known:
        c = dict(f["witness"])
        c["fam"] = fam
        c["id"] = f["id"]
        cases.append(c)
    path = os.path.join(C.WORK, "known_%s_%d.jsonl" % (pid, os.getpid()))
    with open(path, "w") as fh:
        for c in cases:
            fh.write(json.dumps(c) + "\n")
    rows = C.run_family(fam, 0, 0, "quick", replay=path)
    os.unlink(path)
    return list(zip(known, rows))
