"""Delta-debugging shrinker for (schema, data) style cases. Candidates are evaluated in
batches through the same harness -> driver pipeline; `still(row)` says whether a row
still shows the disagreement being minimised."""
import copy, json


def _paths(v, path=()):
    yield path, v
    if isinstance(v, dict):
        for k in sorted(v):
            yield from _paths(v[k], path + (k,))
    elif isinstance(v, list):
        for i, x in enumerate(v):
            yield from _paths(x, path + (i,))


def _get(v, path):
    for p in path:
        v = v[p]
    return v


def _set(root, path, val):
    if not path:
        return val
    root = copy.deepcopy(root)
    cur = root
    for p in path[:-1]:
        cur = cur[p]
    cur[path[-1]] = val
    return root


def _delete(root, path):
    root = copy.deepcopy(root)
    cur = root
    for p in path[:-1]:
        cur = cur[p]
    del cur[path[-1]]
    return root


def candidates(case, fields=("schema", "data")):
    for f in fields:
        if f not in case:
            continue
        root = case[f]
        for path, v in _paths(root):
            if path:
                # delete this member / element
                c = dict(case); c[f] = _delete(root, path); yield c
            if isinstance(v, (dict, list)) and v:
                # hoist a child
                kids = v.values() if isinstance(v, dict) else v
                for kid in kids:
                    if f == "data" or isinstance(kid, dict):
                        c = dict(case); c[f] = _set(root, path, kid); yield c
                c = dict(case); c[f] = _set(root, path, {} if isinstance(v, dict) else []); yield c
            elif f == "data":
                for simple in (None, 0, ""):
                    if v != simple and not isinstance(v, bool):
                        c = dict(case); c[f] = _set(root, path, simple); yield c
            if isinstance(v, str) and len(v) > 1 and f == "data":
                c = dict(case); c[f] = _set(root, path, v[:1]); yield c


def size(case, fields=("schema", "data")):
    return sum(len(json.dumps(case.get(f), sort_keys=True)) for f in fields)


def shrink(case, evaluate, still, fields=("schema", "data"), rounds=60, batch=400):
    """evaluate(list of cases) -> list of rows aligned with the input; still(row) -> bool"""
    best = case
    for _ in range(rounds):
        cands = []
        seen = set()
        for c in candidates(best, fields):
            k = json.dumps([c.get(f) for f in fields], sort_keys=True)
            if k in seen or size(c, fields) >= size(best, fields):
                continue
            seen.add(k)
            cands.append(c)
            if len(cands) >= batch:
                break
        if not cands:
            break
        cands.sort(key=lambda c: size(c, fields))
        rows = evaluate(cands)
        nxt = None
        for c, r in zip(cands, rows):
            try:
                if still(r):
                    nxt = c
                    break
            except Exception:
                continue
        if nxt is None:
            break
        best = nxt
    return best
