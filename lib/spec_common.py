"""Shared evaluation of the `spec` / `specmut` harness families (C02 C03 C07 C09 C10)."""
import json, os, re

Q = r'"((?:[^"\\]|\\.)*)"'   # a Go %q string


def unq(s):
    try:
        return json.loads('"' + s + '"')
    except Exception:
        return s


# (kind, regex, argument order as the Lean model emits them)
_RULES = [
    ("nonUniqueOperationID", r'^%s is defined (\d+) times$' % Q, None),
    ("duplicateParamName", r'^duplicate parameter name %s for %s in operation %s$' % (Q, Q, Q), (1, 0, 2)),
    ("noParameterInPath", r'^path param %s has no parameter definition$' % Q, None),
    ("pathParamNotInPath", r'^path param %s is not present in path %s$' % (Q, Q), None),
    ("pathParamNotUnique", r'^params in path %s must be unique: %s conflicts with %s$' % (Q, Q, Q), None),
    ("invalidPatternInParam", r'^operation %s has invalid pattern in param %s: %s$' % (Q, Q, Q), None),
    ("pathParamRequired", r'^in operation %s,path param %s must be declared as required$' % (Q, Q), None),
    ("bothFormDataAndBody", r'^operation %s has both formData and body parameters\.' % Q, None),
    ("multipleBodyParam", r'^operation %s has more than 1 body param: ' % Q, None),
    ("pathOverlap", r'^path (.*) overlaps with (.*)$', "raw"),
    ("arrayInParamRequiresItems", r'^param %s for %s is a collection without an element type \(array requires item definition\)$' % (Q, Q), None),
    ("arrayInHeaderRequiresItems", r'^header %s for %s is a collection without an element type \(array requires items definition\)$' % (Q, Q), None),
    ("arrayRequiresItems", r'^(.*) for %s is a collection without an element type \(array requires items definition\)$' % Q, "first-raw"),
    ("invalidItemsPattern", r'^(.*) for %s has invalid items pattern: %s$' % (Q, Q), "first-raw"),
    ("invalidPattern", r'^pattern %s is invalid in (.*)$' % Q, "last-raw"),
    ("requiredButNotDefined", r'^%s is present in required but not defined as property in definition %s$' % (Q, Q), None),
    ("noValidPath", r'^spec has no valid path defined$', None),
    ("emptyPathParameter", r'^%s contains an empty path parameter$' % Q, None),
    ("circularAncestryDefinition", r'^definition %s has circular ancestry: (.*)$' % Q, "last-raw"),
    ("duplicateProperties", r'^definition %s contains duplicate properties: (.*)$' % Q, "last-raw"),
    ("unresolvedReferences", r'^some references could not be resolved in spec\. First found:', None),
    ("invalidRef", r'^invalid ref ', None),
]
_RULES = [(k, re.compile(rx, re.S), o) for k, rx, o in _RULES]

# wrapper messages of the default / example validators (C09); order matters (items before param)
_C09 = [
    ("defaultItems", re.compile(r'^default value for (.*)\.items in (\S+) does not validate its schema$', re.S)),
    ("defaultParam", re.compile(r'^default value for (.*) in (\S+) does not validate its schema$', re.S)),
    ("defaultHeaderItems", re.compile(r'^in operation %s, default value in header\.items (.*) for (.*) does not validate its schema$' % Q, re.S)),
    ("defaultHeader", re.compile(r'^in operation %s, default value in header (.*) for (.*) does not validate its schema$' % Q, re.S)),
    ("defaultResponse", re.compile(r'^in operation %s, default value in (.*) does not validate its schema$' % Q, re.S)),
    ("exampleItems", re.compile(r'^example value for (.*)\.items in (\S+) does not validate its schema$', re.S)),
    ("exampleParam", re.compile(r'^example value for (.*) in (\S+) does not validate its schema$', re.S)),
    ("exampleHeaderItems", re.compile(r'^in operation %s, example value in header\.items (.*) for (.*) does not validate its schema$' % Q, re.S)),
    ("exampleHeader", re.compile(r'^in operation %s, example value in header (.*) for (.*) does not validate its schema$' % Q, re.S)),
    ("exampleResponse", re.compile(r'^in operation %s, example value in (.*) does not validate its schema$' % Q, re.S)),
]


def classify9(msg):
    """wrapper message of the default/example validators -> 'kind:arg|arg' as the Lean model renders it"""
    for kind, rx in _C09:
        m = rx.match(msg)
        if m:
            g = list(m.groups())
            if kind.endswith(("Header", "HeaderItems", "Response")):
                g[0] = unq(g[0])
            return kind + ":" + "|".join(g)
    return None


def classify(msg):
    """rule message -> 'kind:arg|arg' as the Lean model renders it; None for anything else"""
    for kind, rx, order in _RULES:
        m = rx.match(msg)
        if not m:
            continue
        g = list(m.groups())
        if order == "raw":
            args = g
        elif order == "first-raw":
            args = [g[0]] + [unq(x) for x in g[1:]]
        elif order == "last-raw":
            args = [unq(x) for x in g[:-1]] + [g[-1]]
        else:
            args = [unq(x) for x in g]
            if order:
                args = [args[i] for i in order]
        if kind in ("multipleBodyParam", "bothFormDataAndBody", "unresolvedReferences", "invalidRef"):
            args = args[:1]
        return kind + ":" + "|".join(args)
    return None


def rule_tags(msgs):
    out = set()
    for m in msgs:
        t = classify(m)
        if t is not None:
            out.add(t)
    return out


def norm_circular(tags):
    """the property allows the circular-ancestry message to name any member of the cycle; the Go loop
    also returns at the first definition it finds circular, in map order"""
    out = set()
    for t in tags:
        if t.startswith("circularAncestryDefinition:"):
            out.add("circularAncestryDefinition:*")
        elif t.startswith("duplicateProperties:") and t.endswith("]") and "|[" in t:
            # the list of duplicates is compared as a set (the code sorts it; the model lists it in traversal order)
            head, lst = t.rsplit("|[", 1)
            out.add(head + "|[" + " ".join(sorted(lst[:-1].split(" "))) + "]")
        else:
            out.add(t)
    return out


def norm_msgs_circular(msgs):
    out = set()
    for m in msgs:
        if re.match(r'^definition "(?:[^"\\]|\\.)*" has circular ancestry: ', m):
            out.add("definition * has circular ancestry")
        else:
            out.add(m)
    return out


def runs_of(go, cont=None, tag=None):
    rs = go.get("runs", []) if isinstance(go, dict) else []
    return [r for r in rs if (cont is None or r.get("cont") == cont) and (tag is None or r.get("tag") == tag)]


class SpecStats:
    def __init__(self):
        self.n = 0
        self.loaded = 0
        self.valid = 0
        self.schema_valid = 0
        self.runs = 0
        self.edits = {}
        self.kinds = {}
        self.via = {}
        self.sources = {}
        self.samples = []
        self.distinct = set()
        self.ops = {}
        self.panics = 0

    def add(self, C, row):
        case, go = row["case"], row["go"]
        self.n += 1
        for e in case.get("edits") or ["(none)"]:
            self.edits[e] = self.edits.get(e, 0) + 1
        self.via[case.get("via", "raw")] = self.via.get(case.get("via", "raw"), 0) + 1
        src = case.get("source", "grammar")
        src = "fixture" if src != "grammar" else src
        self.sources[src] = self.sources.get(src, 0) + 1
        if not isinstance(go, dict) or not go.get("loaded"):
            return
        self.loaded += 1
        self.distinct.add(C.case_hash({"doc": case.get("doc")}))
        rs = go.get("runs", [])
        self.runs += len(rs)
        if any("panic" in r for r in rs):
            self.panics += 1
        cont = runs_of(go, True, "same")
        if cont and cont[0].get("valid"):
            self.valid += 1
        if (go.get("schemaPass") or {}).get("valid"):
            self.schema_valid += 1
        if cont:
            for t in rule_tags(cont[0].get("errors", [])):
                k = t.split(":")[0]
                self.kinds[k] = self.kinds.get(k, 0) + 1
        nops = str((row.get("m") or {}).get("nops", "?"))
        self.ops[nops] = self.ops.get(nops, 0) + 1
        if len(self.samples) < 2 and cont:
            self.samples.append({"doc": case.get("doc"), "edits": case.get("edits"), "via": case.get("via"),
                                 "go_valid": cont[0].get("valid"), "go_errors": cont[0].get("errors", [])[:8]})

    def coverage(self, rule):
        return {"evaluations": self.n, "distinct_nontrivial": len(self.distinct), "rule": rule, "samples": self.samples,
                "traces_validated_against_impl": self.loaded, "documents_loaded": self.loaded,
                "validations_run": self.runs, "accepted_documents": self.valid, "schema_valid_documents": self.schema_valid,
                "edits_applied": self.edits, "rule_kinds_reported_by_go": self.kinds, "carrier": self.via,
                "document_source": self.sources, "operations_per_document": self.ops, "documents_with_panic": self.panics}


def replay_file(ctx, C):
    if ctx.replay and ctx.replay.get("case"):
        path = os.path.join(C.WORK, "replay_%d.jsonl" % os.getpid())
        os.makedirs(C.WORK, exist_ok=True)
        with open(path, "w") as fh:
            fh.write(json.dumps(ctx.replay["case"]) + "\n")
        return path
    return None


def sizes(ctx, quick, thorough):
    n = quick if ctx.tier == "quick" else thorough
    if ctx.search:
        n *= 3
    return n


def _tree_hash(C):
    """content hash of everything a spec-family run depends on: /repo's Go sources, the harness sources, the driver binary"""
    import hashlib, glob
    h = hashlib.sha1()
    files = sorted(glob.glob(os.path.join(C.REPO, "*.go")) + glob.glob(os.path.join(C.REPO, "post", "*.go"))
                   + [os.path.join(C.REPO, "go.mod"), os.path.join(C.REPO, "go.sum")]
                   + glob.glob(os.path.join(C.VERIF, "harness", "*.go")) + glob.glob(os.path.join(C.VERIF, "corpus", "spec*.jsonl"))
                   + [C.driver_path()])
    for f in files:
        if f.endswith("_test.go") or not os.path.exists(f):
            continue
        h.update(f.encode())
        with open(f, "rb") as fh:
            h.update(fh.read())
    return h.hexdigest()[:16]


def _idx(case_id):
    m = re.match(r".*-(\d+)-(\d+)$", str(case_id))
    return int(m.group(2)) if m else -1


def run(ctx, C, fam, quick, thorough):
    """rows of a spec family. The five spec properties validate the same generated documents: within one tree state
    (content hash of /repo's sources, the harness and the driver) the rows are computed once and shared; a smaller
    request is a prefix of a larger one because cases are a function of (seed, index)."""
    rp = replay_file(ctx, C)
    if rp:
        if ctx.replay["case"].get("fam") not in (None, fam):
            return []
        return C.run_family_sharded(fam, 0, ctx.seed, ctx.tier, shards=16, replay=rp)
    n = sizes(ctx, quick, thorough)
    C.build_harness()  # the hash must see what is about to run; the driver was built by prove()
    key = "%s_%d_%s_%s" % (fam, ctx.seed, ctx.tier, _tree_hash(C))
    path = os.path.join(C.WORK, "cache_" + key + ".jsonl")
    with C.Lock("speccache_" + fam):
        if os.path.exists(path):
            with open(path) as fh:
                head = json.loads(fh.readline())
                if head.get("n", 0) >= n:
                    rows = [json.loads(l) for l in fh]
                    return [r for r in rows if _idx(r["case"].get("id")) < n or not str(r["case"].get("id", "")).startswith(fam + "-")]
        rows = C.run_family_sharded(fam, n, ctx.seed, ctx.tier, shards=16, timeout=3600 if ctx.tier == "quick" else 14400)
        for old in [f for f in os.listdir(C.WORK) if f.startswith("cache_%s_" % fam) and f != os.path.basename(path)]:
            try:
                os.unlink(os.path.join(C.WORK, old))
            except OSError:
                pass
        with open(path, "w") as fh:
            fh.write(json.dumps({"n": n}) + "\n")
            for r in rows:
                fh.write(json.dumps(r) + "\n")
        return rows


def known_for(C, pid):
    return [f for f in C.load_known_findings(pid) if f.get("status") == "known"]


def replay_known(C, pid):
    """re-run the witnesses of the known findings of `pid` on the real code"""
    known = [f for f in known_for(C, pid) if f.get("witness")]
    out = []
    for fam in ("spec", "specmut"):
        ks = [f for f in known if f["witness"].get("fam", "spec") == fam]
        if not ks:
            continue
        path = os.path.join(C.WORK, "known_%s_%s_%d.jsonl" % (pid, fam, os.getpid()))
        with open(path, "w") as fh:
            for f in ks:
                c = dict(f["witness"])
                c["fam"] = fam
                c["id"] = f["id"]
                fh.write(json.dumps(c) + "\n")
        rows = C.run_family(fam, 0, 0, "quick", replay=path)
        os.unlink(path)
        out += list(zip(ks, rows))
    return out


def pathfuncs_tie(ctx, C, ops):
    """the string functions under the rule/traversal models vs the real ones; returns (n, mismatching rows)"""
    n = 6000 if ctx.tier == "quick" else 300000
    rows = C.run_family("pathfuncs", n, ctx.seed, ctx.tier)
    bad = []
    cnt = 0
    for r in rows:
        if r["case"].get("op") not in ops:
            continue
        cnt += 1
        if r["go"] != r["m"]:
            bad.append((r["case"], {"what": "%s: model and implementation of the string function disagree (tie T2 broken)" % r["case"]["op"],
                                    "go": r["go"], "model": r["m"], "tie": True, "no_failing_input": True}))
    return cnt, bad


_PARAM_REVALIDATION = re.compile(r'^"?/[^ ]*\.(GET|PUT|POST|DELETE|OPTIONS|HEAD|PATCH)\.parameters\.|^invalid definition (as Schema )?for parameter ')


def whole_model_tie(rows):
    """the model of the whole of Validate (Impl/SpecModel.lean: schema pass, reference check, rule loops, default and example
    stages with the validator models as judges, through the pipeline) gives the code's verdict in both continue-on-errors modes.
    Whether every $ref resolves is an oracle (go-openapi/spec's expander): documents where the code reports an unresolvable
    reference that the driver's local resolution does not see are left out. Returns (comparisons, mismatches)."""
    n, bad = 0, []
    for r in rows:
        go, m = r["go"], r["m"]
        if not isinstance(go, dict) or not go.get("loaded") or "crash" in go or not m or not m.get("whole"):
            continue
        if any("panic" in x or x.get("nilResult") for x in go.get("runs", [])):
            continue
        for cont, key in ((True, "cont"), (False, "stop")):
            g = runs_of(go, cont, "same")
            if not g or "valid" not in g[0]:
                continue
            unres = any(t.startswith(("unresolvedReferences", "invalidRef")) for t in rule_tags(g[0].get("errors", []))) \
                or any(e.startswith("could not resolve reference in ") for e in g[0].get("errors", []))
            # (the second form comes from the inheritance walks: a $ref inside a schema whose target exists but is not a schema,
            #  e.g. "#/parameters/P1" - go-openapi/spec's resolver refuses it, the driver's local lookup finds the target)
            if unres == bool(m.get("localRefsOk")):
                continue   # the oracle (go-openapi/spec's resolver) and the driver's local resolution disagree on this document
            if any(_PARAM_REVALIDATION.search(e) for e in g[0].get("errors", [])):
                # spec.go validateParameters re-validates every *expanded* parameter, re-serialised through go-openapi/spec's types,
                # against #/definitions/parameter, and checkExpandedParam "explains" broken ones: glue that is not modelled
                continue
            w = m["whole"][key]
            if w["panic"] and not m.get("viewClosed"):
                continue   # outside the hypotheses of the no-panic theorem the model's validators stop at the documented panic
            n += 1
            if w["panic"] or bool(w["valid"]) != bool(g[0]["valid"]) or not w["warnsEq"]:
                bad.append((r["case"], {"what": "the model of the whole of Validate and the implementation disagree on the verdict (tie T2 broken)",
                                        "mode_continue": cont, "go_valid": g[0]["valid"], "model": w, "go_errors": g[0].get("errors", [])[:4]}))
    return n, bad
