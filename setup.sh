#!/bin/sh
# Build the framework from files on disk only (offline).
set -e
cd "$(dirname "$0")"
export GOFLAGS=-mod=mod GOPROXY=off GOSUMDB=off GOTOOLCHAIN=local
mkdir -p bin evidence/work evidence/replay
if [ -d extract ]; then (cd extract && go build -o ../bin/extract .); fi
if [ -x bin/extract ]; then bin/extract -repo /repo -out lean/VM/Generated; fi
python3 tools/gen_swagger_lean.py >/dev/null
(cd lean && lake build VM driver)
cp /repo/go.sum harness/go.sum
(cd harness && go build -tags verif -o ../bin/harness .)
echo setup-ok
