#!/bin/sh
# Re-run the pinned suite with the guard off and compare with BASELINE.json's stable_pass list.
cd /repo && GOFLAGS=-mod=mod GOPROXY=off GOSUMDB=off GOTOOLCHAIN=local go test -mod=mod -json -vet=off -count=1 -timeout 25m ./... > /tmp/baseline_run.json 2>&1
python3 - <<'PY'
import json
b=json.load(open('/root/.vp/BASELINE.json'))
want=set(b['stable_pass'])
res={}
for l in open('/tmp/baseline_run.json'):
    try: e=json.loads(l)
    except Exception: continue
    if e.get('Action') in ('pass','fail','skip') and e.get('Test'):
        res[e['Package']+'::'+e['Test']]=e['Action']
bad=[t for t in want if res.get(t)!='pass']
print("baseline: %d/%d stable tests pass"%(len(want)-len(bad),len(want)))
for t in bad[:20]: print("  NOT PASSING:",t,res.get(t))
raise SystemExit(1 if bad else 0)
PY
