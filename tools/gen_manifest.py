#!/usr/bin/env python3
"""Regenerates /verif/MANIFEST.json from the table below (kept in one place so that the manifest
stays valid and in step with the checks that exist)."""
import json, os, subprocess
V = os.path.dirname(os.path.dirname(os.path.abspath(__file__)))
TB = ("Lean 4.33 kernel with propext/Classical.choice/Quot.sound only (audited per theorem on every run); /verif/extract, "
      "/verif/harness and /verif/check are trusted; Go runtime, regexp, reflect, encoding/json and go-openapi/{spec,swag,strfmt,errors,"
      "analysis,loads} are oracles or pre-processing (DESIGN.md section 8).")
CHECKS = {
 "C01": ("Kernel-checked theorem that the implementation model of the validator tree (all eight keyword groups, MatchCount and best-failure "
         "bookkeeping, $ref by fuel) accepts exactly what a draft-4 specification accepts: full strength for the repaired configuration, "
         "under explicit no-trigger hypotheses for the code as it is, with a decide-witness per open deviation switch. The model is tied to "
         "the Go code by a differential correspondence (verdict, match count, error set) on generated schema/instance pairs; every "
         "code-vs-specification disagreement must be attributed to a listed known finding by flipping its switch in the model.",
         "Lean 4 proof (mutual structural induction over schemas) + differential correspondence with switch attribution", "DESIGN.md §6 C01"),
 "C06": ("No-panic part of the C01 theorem for in-vocabulary schemas, decide-witness of the (fixed) out-of-range index, and the no-panic "
         "oracle checked directly on the real code over a malformed-schema stream with every option combination (incl. json.Number); "
         "the model's panic flag is compared with the code's. Partial: panics inside go-openapi/spec, swag and reflect are outside the model; "
         "the no-panic theorem for degenerate schemas is not yet proved (correspondence only).",
         "Lean 4 proof (panic flag of the model) + malformed-stream correspondence", "DESIGN.md §6 C06"),
 "C08": ("In the model a non-recycling validator is a pure function of (definition, value); the theorem is definitional and the assurance "
         "comes from the tie: repeated use of one real validator object is compared with its first answer and with the model "
         "(verdict, error set, match count).",
         "Lean 4 model purity + repeated-use correspondence", "DESIGN.md §6 C08"),
 "C12": ("Kernel-checked obligation over a table of every index/deref/field write and in-place expansion call site regenerated from the "
         "Go sources on every run (each must target validator-owned memory or be a documented expansion), plus deep before/after snapshots "
         "of instance and schema on every generated case. Partial: aliasing is decided by a syntactic classification, not a heap semantics.",
         "regenerated write-site table checked by decide + snapshot correspondence", "DESIGN.md §6 C12"),
 "C17": ("Theorems that validity is the absence of errors and that the one-shot composite lists exactly the result's duplicate-free errors "
         "(with C20), and correspondence of the full (code, name, kind) error set between the model and the code for random root paths, "
         "plus direct checks that every error name extends the caller's root path. Location accuracy is so far established by the "
         "model-vs-code equality of located error sets, not yet by a standalone theorem.",
         "Lean 4 proof (result laws) + located-error-set correspondence", "DESIGN.md §6 C17"),
 "C20": ("Lean 4 theorems over a list-level model of validate.Result (ordered-set union, additive counts, nil handling, every finite op "
         "sequence by induction); tied to result.go by replaying random op sequences on the real code and comparing every intermediate state.",
         "Lean 4 proof (induction over op sequences) + differential correspondence", "DESIGN.md §6 C20"),
}
def main():
    props = [json.loads(l)["id"] for l in open(os.path.join(V, "properties.jsonl"))]
    checks = []
    for pid in props:
        if pid not in CHECKS:
            continue
        text, tech, ref = CHECKS[pid]
        checks.append({"property_id": pid, "quick_cmd": "./check %s --tier quick" % pid,
                       "thorough_cmd": "./check %s --tier thorough" % pid,
                       "evidence_file": "/verif/evidence/%s.json" % pid,
                       "replay_cmd_template": "./check %s --replay {path}" % pid,
                       "engine": "lean-model+go-harness",
                       "level_claimed": {"category": "proof", "text": text, "design_ref": ref},
                       "level_note": TB, "technique": tech})
    hooks = subprocess.run(["git", "-C", "/repo", "log", "--format=%h %s"], capture_output=True, text=True).stdout.splitlines()
    hook_commits = [l.split()[0] for l in hooks if l.split(" ", 1)[1].startswith("verif hooks")]
    served = sorted(CHECKS)
    m = {"version": 1, "setup_cmd": "./setup.sh",
         "hooks": {"guard": "verif", "enable": "go build -tags verif",
                   "baseline_off_cmd": "cd /repo && go test -mod=mod -json -vet=off -count=1 -timeout 25m ./...",
                   "source_commits": hook_commits, "add_only": True},
         "engines": [
             {"name": "lean-model", "path": "/verif/lean", "serves_properties": served,
              "kind_free_text": "Lean 4 specification layer, implementation model, theorems (core only) and compiled line-protocol driver"},
             {"name": "go-harness", "path": "/verif/harness", "serves_properties": served,
              "kind_free_text": "in-process differential harness (build tag verif) feeding the Lean driver"},
             {"name": "extract", "path": "/verif/extract", "serves_properties": ["C12"],
              "kind_free_text": "go/ast fact extractor regenerating lean/VM/Generated on every run (tie T1)"}],
         "checks": checks,
         "notes": "See DESIGN.md. known_findings.json lists genuine defects recorded or fixed. Properties under not_applicable are not yet served by a check in this round; none is a claim that the technique cannot apply.",
         "not_applicable": [{"property_id": p, "reason": "check not built yet in this round (design in DESIGN.md section 6); not a claim that the technique cannot apply"} for p in props if p not in CHECKS]}
    json.dump(m, open(os.path.join(V, "MANIFEST.json"), "w"), indent=1)
main()
