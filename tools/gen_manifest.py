#!/usr/bin/env python3
"""Regenerates /verif/MANIFEST.json from the table below (kept in one place so that the manifest
stays valid and in step with the checks that exist)."""
import json, os, subprocess
V = os.path.dirname(os.path.dirname(os.path.abspath(__file__)))
TB = ("Lean 4.33 kernel with propext/Classical.choice/Quot.sound only (audited per theorem on every run); /verif/extract, "
      "/verif/harness and /verif/check are trusted; Go runtime, regexp, reflect, encoding/json and go-openapi/{spec,swag,strfmt,errors,"
      "analysis,loads} are oracles or pre-processing (DESIGN.md section 8).")
CHECKS = {
 "C01": ("Kernel-checked theorem that the implementation model of the validator tree (all eight keyword groups, MatchCount and best-failure "
         "bookkeeping, $ref by fuel) accepts exactly what a draft-4 specification accepts: full strength for the repaired configuration; for the code "
         "exactly as it is (every open deviation switch as in the source, the IMPORTANT!-message leak included: a second induction shows that "
         "no result carries such a message on an instance without a headers member holding $ref objects) under one explicit no-trigger "
         "hypothesis per open deviation, with a decide-witness per switch. The model is tied to "
         "the Go code by a differential correspondence (verdict, match count, error set) on generated schema/instance pairs; every "
         "code-vs-specification disagreement must be attributed to a listed known finding by flipping its switch in the model.",
         "Lean 4 proof (mutual structural induction over schemas) + differential correspondence with switch attribution", "DESIGN.md §6 C01"),
 "C02": ("Kernel-checked theorems over the Swagger 2.0 schema as a closed Lean term regenerated on every run from the JSON the library embeds: "
         "every definition and the root are in the vocabulary of the C01 theorem (decide), hence the model of the schema pass accepts a raw "
         "document exactly when draft 4 does (full strength for the repaired configuration; for the code as it is on documents without null and "
         "without $schema/id members), and the pipeline never loses an error of the schema pass in either continue-on-errors mode, so an accepted "
         "document is schema-valid; decide-witness that \"responses\": {\"200\": null} is accepted (open null early exit). Tie: Go's schema pass "
         "(verdict and error set) = the model over the same term on every generated document, the schema handed out by the library = the source of "
         "the term, and the property itself (accepted => Lean draft-4 specification accepts) on grammar documents and arbitrarily mutated "
         "grammar/fixture documents. Partial: theorems take the validator tree without the Swagger strictness options.",
         "Lean 4 proof (C01 instantiated on the regenerated Swagger schema term + pipeline monotonicity) + document-level differential with switch attribution", "DESIGN.md §6 C02, §14"),
 "C03": ("Kernel-checked equivalence, for every analysed view and regexp oracle and both settings of the path-uniqueness option: the model of the "
         "rule loops of spec.go reports no error exactly when every documented rule holds (unique operation ids, parameter name+location unique, "
         "path placeholders and path parameters in one-to-one correspondence and required, at most one body and never with formData, patterns "
         "compile, required properties defined incl. through additionalProperties, no overlapping paths, paths present without empty "
         "placeholder, references resolve, arrays declare items along every items chain, no definition is its own ancestor (the walk relation "
         "Revisits: a followed reference is followed again on one way down; a diamond is not a cycle), no property name declared twice along "
         "the ancestry), every rule stated declaratively, with per-rule iff lemmas and shape theorems for the path-template scanner; "
         "decide-witnesses for the diamond, a cycle below the starting definition and a property inherited twice. Tie: rule messages reported by "
         "Go = messages of the model, as sets, on grammar documents with 0-2 edits from a 41-entry catalogue (one per rule and variant, plus "
         "entries that break no rule), accepted <=> model reports nothing in both modes, and the verdict of the whole-of-Validate model "
         "(Impl/SpecModel.lean; theorem: it accepts exactly when the schema pass, every rule and the value stages report nothing) = the "
         "code's verdict in both modes. Partial: nesting deeper than 64 levels is outside the model.",
         "Lean 4 proof (per-rule soundness and completeness of the loop models) + rule-message differential on grammar documents", "DESIGN.md §6 C03, §14"),
 "C07": ("Kernel-checked theorem about the model of the whole of (*SpecValidator).Validate (Swagger schema pass over the raw document, "
         "reference check, every rule loop, default and example stages judging with the models of the schema, parameter, header and items "
         "validators as they are, merged by the pipeline): it never panics, in either continue-on-errors mode, for every document view "
         "whose definitions table is closed and whose schemas only hold references it knows (an executable check, evaluated on every "
         "generated document), every raw document, regexp engine and format registry — composed from C06's no-panic theorem for the validator "
         "tree, a no-panic theorem for the parameter/header/items chains, the stage theorems (mutual induction over schemas; the nil result "
         "of a visited path is never dereferenced) and the pipeline theorem; plus a decide-obligation on the regenerated table of reads on "
         "possibly-nil results. Tie: arbitrarily mutated grammar and fixture documents validated in both modes, each in its own child process "
         "so that fatal errors and hangs are observed; the whole-model verdict = the code's verdict in both modes. Partial: loads, analysis and "
         "the $ref expander of go-openapi/spec are outside the model (oracle); termination of the code is observed, not proved.",
         "Lean 4 proof (whole-of-Validate model never panics) + regenerated nil-read table + mutation-stream correspondence in child processes", "DESIGN.md §6 C07, §14"),
 "C09": ("Kernel-checked theorem, for every schema, path, visited set, judges and oracle: with the visited-path cut-off removed the schema "
         "walker of the default (errors) and example (warnings) validators reports a message exactly when the recursive specification asks for "
         "it (the judgement of the value at some location reachable through items, tuple items, additionalItems, properties, "
         "patternProperties, additionalProperties, allOf, under that location's path); the code as it is (exact visited set and suffix "
         "heuristic) is the same function, and reports the same, on every schema, path and visited set where the bookkeeping is unambiguous "
         "(no walked path triggers the heuristic, no two walked locations render to the same path, none visited before: a decidable "
         "predicate), by a compositional proof over walker states; decide-witnesses of the heuristic skipping property a of definition a and "
         "of an exact path collision (what lies outside the predicate is exactly the listed finding). Tie: on grammar documents with good/bad values at every location kind, the locations and "
         "wrapper messages Go reports = those of the model (as-is), and every difference from the repaired model must be attributed to the listed finding.",
         "Lean 4 proof (mutual structural induction: traversal = recursive specification) + location-level differential", "DESIGN.md §6 C09, §14"),
 "C10": ("Kernel-checked theorems about the model of (*SpecValidator).Validate: stop-early errors are a subset of continue-on-errors errors "
         "for any stage results (given that of the one stage that stops by itself, proved for its loop model in any map order), the errors do not "
         "depend on any warning, the separately returned warnings are exactly the main result's warnings, no message twice; the reported sets "
         "of the rule loops are invariant under every permutation of the operations / definitions / path keys; decide-obligations on tables "
         "regenerated from the source: the merge order and early-return guards are the modelled ones, every range loop that can exit early "
         "ranges over a slice; decide-witnesses of the order dependence the three fix commits removed. Tie: every document validated 7+ times "
         "(same object, reloaded, JSON/YAML file, reversed member order, both modes), corpus cases 24 more times.",
         "Lean 4 proof (pipeline laws, permutation invariance) + regenerated pipeline/exit-range facts + repeated-validation correspondence", "DESIGN.md §6 C10, §14"),
 "C04": ("Kernel-checked theorem that pools handing back arbitrary used objects are invisible to every client program keeping the "
         "ownership discipline (simulation proof over free-monad programs, arbitrary chooser and stale contents), theorem that the validator "
         "tree's redeem protocol redeems every object exactly as often as it borrows it for every tree shape, slot script and panic point, and "
         "decide-obligations on tables regenerated from the source (constructors overwrite every field, cleared() resets every field, slots "
         "are released before the child runs, no read after merge, one Put per Redeem, empty result guarded). Tie: random call histories "
         "through persistent pools with scribble-on-redeem vs. each call alone, and replay of the borrow/redeem trace in the Lean ownership "
         "machine. Partial: 'nothing is touched after its redeem' is static table + sampled histories, not a theorem over the Go source.",
         "Lean 4 proof (simulation; mutual induction over validator trees) + regenerated fact tables + history correspondence with scribbling", "DESIGN.md §6 C04"),
 "C05": ("Kernel-checked theorem that any number of disciplined threads over one shared pool, under every schedule and pool choice, each get "
         "the result they get alone (interleaving as a woven program + frame lemmas + the C04 simulation), the C15 cache theorems, and "
         "decide-obligations on regenerated tables (default options only touched under their mutex, cache written copy-on-write under "
         "the lock, long-lived validators write only their own slots). Tie: goroutine programs on the real code built with -race, "
         "scribbling on, every outcome compared with the solo outcome. Partial: the Go memory model, sync.Pool, atomic.Value and "
         "sync.Mutex are assumed to behave as modelled; a model cannot exhibit a hardware-level race.",
         "Lean 4 proof (interleaving independence) + regenerated fact tables + -race stress correspondence", "DESIGN.md §6 C05"),
 "C11": ("Kernel-checked theorem: with child slots released before the child runs (a fact regenerated from the source), no object is "
         "redeemed more often than it is borrowed for every validator tree, slot script and panic point; with C04's recycling_invisible "
         "later validations are then as in a fresh process. decide-witness of the double redeem under the old order. Tie: histories with a "
         "format checker panicking at its k-th invocation, recovery, and comparison of every later call with a fresh run, plus trace replay.",
         "Lean 4 proof (redeem protocol with panic point) + panic-injection history correspondence", "DESIGN.md §6 C11"),
 "C13": ("Kernel-checked theorems about the kind-dispatched numeric helpers, stated over Lean renderings of MaximumInt/MinimumUint/"
         "MultipleOfInt/... regenerated from values.go on every run (bridge lemmas to the expected forms): exact agreement with rational "
         "arithmetic for every signed/unsigned kind with integral bounds and factors and for float carriers with any bound; carrier "
         "independence as a corollary; decide-witnesses that fractional bounds against integer carriers deviate. Tie: every Go numeric kind "
         "x boundary values x bounds through the exported helpers, AgainstSchema with typed data and ParamValidator, compared with the model "
         "and with exact arithmetic. Partial: float multipleOf and the tolerance-based integer test are executed (oracle), not proved.",
         "Lean 4 proof over regenerated definitions (T1 translator) + typed-value differential", "DESIGN.md §6 C13"),
 "C14": ("Kernel-checked iff-theorems for MinItems/MaxItems (regenerated definitions), Required, RequiredString, RequiredNumber, ReadOnly, "
         "Pattern, FormatOf, ASCII length counting, soundness of UniqueItems (reflect.DeepEqual implies value equality, by mutual "
         "induction over typed values) and acceptance of same-typed enum members; decide-witnesses of the two open deviations. Tie: "
         "each helper on typed Go values (all widths, invalid UTF-8, nested slices/maps, typed and untyped nils), called twice with "
         "argument snapshots, compared with the model and the textbook definition.",
         "Lean 4 proof (typed-value model) + helper differential", "DESIGN.md §6 C14"),
 "C16": ("Kernel-checked theorems about the model of the six-slot chain type/string/format/number/slice/enum with first-error exit "
         "and items recursion (fuel = the schema's own nesting depth, so no bound): (1) the chain composes its slots and the recursion "
         "through items exactly as the simple-schema specification composes its constraints, at every depth, whenever the leaf checks agree "
         "at each (level, value) pair reached; (2) on the deviation-free fragment (strings, booleans, signed integers with integral bounds "
         "within int64, arrays of these nested to any depth, no format, enum members of the value's kind) the validators accept exactly what "
         "the specification accepts and never panic, using the C13 exactness theorems for the numeric leaves; chain order as a "
         "decide-obligation on regenerated literals; decide-witnesses of the open deviations, which are exactly what the fragment excludes. "
         "Tie: parameter and header validators (plain and recycling) on typed values against the model and the specification. "
         "Partial: unsigned and float carriers and formats are covered by C13 theorems and correspondence, not by the fragment theorem.",
         "Lean 4 proof (chain composition + fragment equivalence) + regenerated chain-order fact + typed-value differential", "DESIGN.md §6 C16, §14"),
 "C15": ("Kernel-checked invariant over every schedule of every number of threads stepping through compileRegexp/cacheRegexp: every "
         "cached entry belongs to its key, a call returns the expression of the pattern it asked for or reports it invalid exactly when it "
         "is, entries are never lost (lock + load inside it); decide-obligation that the source has the modelled shape (keys, lock, "
         "copy-on-write). Tie: single- and multi-goroutine pattern histories on the real code (built with -race) against Go's regexp "
         "compiled from the same pattern, and an audit of the cache snapshot.",
         "Lean 4 proof (invariant over interleavings) + regenerated shape facts + regexp differential", "DESIGN.md §6 C15"),
 "C06": ("Kernel-checked theorem that the model of the validator tree never panics for EVERY schema (no vocabulary condition: empty enum or "
         "required, multipleOf <= 0, patterns that do not compile, unknown types and formats, keywords foreign to the instance kind), every "
         "instance, every option, every oracle, every amount of $ref fuel and every setting of the deviation switches with the repaired "
         "additional-items bound (the code as it is), provided the references that occur resolve (an unresolvable one is the documented panic: "
         "theorem), by mutual structural induction through all eight sub-validators; decide-witness of the (fixed) out-of-range index. "
         "Termination of the model is structural recursion. Tie: the model's panic flag and verdict are compared with the code's over a "
         "malformed-schema stream with every option combination (incl. json.Number) and pre-check-shaped cases. Partial: panics inside "
         "go-openapi/spec, swag and reflect are outside the model; termination of the code is observed, not proved.",
         "Lean 4 proof (panic flag through the whole validator tree, mutual structural induction) + malformed-stream correspondence", "DESIGN.md §6 C06, §14"),
 "C08": ("In the model a non-recycling validator is a pure function of (definition, value), so the theorems about repetition are definitional; "
         "what carries the property is (T1) decide-obligations on tables regenerated from the source: every range loop of the validator files "
         "that can be left early ranges over a slice/array of child validators or is an existence search (no verdict depends on Go's map order), and "
         "the fields of the shared options object are assigned only by the option setters and once at the top of SpecValidator.Validate, every "
         "assignment through the receiver inside a Validate/validate*/Applies method sits under the recycling option, and no mutating Result method is "
         "called on a value that came back from a child's Validate (possibly the shared empty result); and (T2) "
         "repeated use of one real validator object compared with its first answer and with the model (verdict, error set, match count), and the reuse "
         "family: 1-3 long-lived schema / parameter / header validators built without recycling, 4-12 calls in any order with repeats, each compared "
         "with a freshly built validator on that value and with every earlier identical call.",
         "Lean 4 model purity + regenerated exit-range and option-write facts + repeated-use correspondence", "DESIGN.md §6 C08, §14"),
 "C12": ("Kernel-checked obligation over a table of every index/deref/field write and in-place expansion call site regenerated from the "
         "Go sources on every run (each must target validator-owned memory or be a documented expansion), plus deep before/after snapshots "
         "of instance and schema on every generated case, of doc.Raw() for every validated document and of the parsed doc.Spec() for accepted "
         "documents without self-referential definitions; the default and example stages must walk copies of the document's definitions "
         "(regenerated fact definitionWalks). Partial: aliasing is decided by a syntactic classification, not a heap semantics.",
         "regenerated write-site table checked by decide + snapshot correspondence", "DESIGN.md §6 C12"),
 "C17": ("Kernel-checked theorems: validity is the absence of errors and the one-shot composite lists exactly the result's duplicate-free "
         "errors (with C20); and, by mutual structural induction through every sub-validator, for every schema (no vocabulary condition), "
         "instance, oracle, switch setting and $ref fuel: each error the model reports is named by the caller's root path extended by the "
         "member names and indices walked through, or carries no name at all (the two composite messages without a location). Tie: the full "
         "(code, name, kind) error set of the code = that of the model for random root paths, plus direct checks that every error name "
         "extends the root. Partial: the theorem takes the options without the Swagger pre-checks (whose two messages name the missing keyword).",
         "Lean 4 proof (located-error invariant through the validator tree, result laws) + located-error-set correspondence", "DESIGN.md §6 C17, §14"),
 "C18": ("Kernel-checked theorems: (1) for every schema of the C01 vocabulary, definitions table, $ref fuel, oracle and admissible instance "
         "(every instance for the repaired configuration), the field-schemata entries the model of the validator tree records (along every "
         "merge: properties, pattern and additional properties, items, tuple and additional items, every allOf member, the selected anyOf / "
         "single oneOf alternative chosen by the model's own verdicts, schema dependencies) are, as a set, exactly the (object, member, default) "
         "triples of the specification of applicable schemas — mutual structural induction through the tree, using the C01 verdict theorem for "
         "the choice of alternatives; (2) for every list of entries post.ApplyDefaults keeps present members, adds only absent members with a "
         "default of a schema that reached them, and fills every absent member reached with a default; (1)+(2): added members are exactly the "
         "absent members for which an applicable schema declares a default. Tie: post.ApplyDefaults on the real result (plain and recycling "
         "validator) vs. the model vs. the specification. Partial: for the code as it is the statement holds on the instances and schemas "
         "outside the open C01 deviations (listed findings show their consequences here).",
         "Lean 4 proof (entries = applicable schemas, post-processor laws) + defaulted-data differential", "DESIGN.md §6 C18/C19, §14"),
 "C19": ("Kernel-checked theorems: with the entries-equal-applicable-schemas theorem of C18 (mutual structural induction, C01 verdicts for the "
         "selected alternatives), pruning keeps a member of any object exactly when it is present and some applicable schema describes it — for "
         "every schema of the vocabulary, definitions table, fuel, oracle and admissible instance (every instance for the repaired configuration); "
         "array elements are never removed, scalars are untouched, pruning is idempotent. Tie: post.Prune on the real result vs. the model vs. "
         "the specification; pruned data is validated and pruned again. Partial: as for C18, the code as it is outside the open C01 deviations.",
         "Lean 4 proof (kept members = described members, idempotence) + pruned-data differential", "DESIGN.md §6 C18/C19, §14"),
 "C20": ("Lean 4 theorems over a list-level model of validate.Result (ordered-set union, additive counts, nil handling, every finite op "
         "sequence by induction); tied to result.go by replaying random op sequences on the real code and comparing every intermediate state.",
         "Lean 4 proof (induction over op sequences) + differential correspondence", "DESIGN.md §6 C20"),
}
def main():
    props = [json.loads(l)["id"] for l in open(os.path.join(V, "properties.jsonl"))]
    checks = []
    for pid in props:
        if pid not in CHECKS:
            continue
        text, tech, ref = CHECKS[pid]
        checks.append({"property_id": pid, "quick_cmd": "./check %s --tier quick" % pid,
                       "thorough_cmd": "./check %s --tier thorough" % pid,
                       "evidence_file": "/verif/evidence/%s.json" % pid,
                       "replay_cmd_template": "./check %s --replay {path}" % pid,
                       "engine": "lean-model+go-harness",
                       "level_claimed": {"category": "proof", "text": text, "design_ref": ref},
                       "level_note": TB, "technique": tech})
    hooks = subprocess.run(["git", "-C", "/repo", "log", "--format=%h %s"], capture_output=True, text=True).stdout.splitlines()
    hook_commits = [l.split()[0] for l in hooks if l.split(" ", 1)[1].startswith("verif hooks")]
    served = sorted(CHECKS)
    m = {"version": 1, "setup_cmd": "./setup.sh",
         "hooks": {"guard": "verif", "enable": "go build -tags verif",
                   "baseline_off_cmd": "cd /repo && go test -mod=mod -json -vet=off -count=1 -timeout 25m ./...",
                   "source_commits": hook_commits, "add_only": True},
         "engines": [
             {"name": "lean-model", "path": "/verif/lean", "serves_properties": served,
              "kind_free_text": "Lean 4 specification layer, implementation model, theorems (core only) and compiled line-protocol driver"},
             {"name": "go-harness", "path": "/verif/harness", "serves_properties": served,
              "kind_free_text": "in-process differential harness (build tag verif) feeding the Lean driver"},
             {"name": "extract", "path": "/verif/extract", "serves_properties": ["C01", "C02", "C04", "C05", "C07", "C10", "C11", "C12", "C13", "C14", "C15", "C16"],
              "kind_free_text": "go/ast fact extractor regenerating lean/VM/Generated on every run (tie T1)"}],
         "checks": checks,
         "notes": "See DESIGN.md (section 14: as built). known_findings.json lists genuine defects recorded or fixed; seeded/ holds confirmed property-breaking changes and which checks catch them.",
         "not_applicable": [{"property_id": p, "reason": "check not built yet in this round (design in DESIGN.md section 6); not a claim that the technique cannot apply"} for p in props if p not in CHECKS]}
    json.dump(m, open(os.path.join(V, "MANIFEST.json"), "w"), indent=1)
main()
