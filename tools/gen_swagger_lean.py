#!/usr/bin/env python3
"""Regenerate lean/VM/Generated/SwaggerSchema.lean from the Swagger 2.0 JSON schema that the
library embeds (go-openapi/spec/schemas/v2/schema.json in the module cache of /repo's go.mod),
with the draft-04 meta-schema fragments it refers to. Write-if-changed.

Every definition becomes one closed term `sw_<name> : Schema`; `$ref` stays a symbolic leaf and
`swaggerDefs` maps reference strings to those terms (what spec.ExpandSchema does in place)."""
import json, os, re, subprocess, sys

REPO = os.environ.get("VERIF_REPO", "/repo")
OUT = os.path.join(os.path.dirname(os.path.dirname(os.path.abspath(__file__))), "lean", "VM", "Generated", "SwaggerSchema.lean")
D4 = "http://json-schema.org/draft-04/schema"


def moddir():
    env = dict(os.environ, GOFLAGS="-mod=mod", GOPROXY="off", GOSUMDB="off", GOTOOLCHAIN="local")
    p = subprocess.run(["go", "list", "-m", "-f", "{{.Dir}}", "github.com/go-openapi/spec"], cwd=REPO, env=env,
                       stdout=subprocess.PIPE, stderr=subprocess.PIPE, text=True)
    if p.returncode != 0:
        sys.exit("go list failed: " + p.stderr)
    return p.stdout.strip()


def lstr(s):
    return json.dumps(s, ensure_ascii=False)


def lrat(n):
    if isinstance(n, bool):
        raise ValueError
    if isinstance(n, int):
        return "(%d : Rat)" % n if n >= 0 else "(-%d : Rat)" % -n
    from fractions import Fraction
    f = Fraction(str(n))
    return "((%d : Rat) / %d)" % (f.numerator, f.denominator)


def jval(v):
    if v is None:
        return ".null"
    if isinstance(v, bool):
        return "(.bool %s)" % ("true" if v else "false")
    if isinstance(v, (int, float)):
        return "(.num %s)" % lrat(v)
    if isinstance(v, str):
        return "(.str %s)" % lstr(v)
    if isinstance(v, list):
        return "(.arr [%s])" % ", ".join(jval(x) for x in v)
    return "(.obj [%s])" % ", ".join("(%s, %s)" % (lstr(k), jval(x)) for k, x in v.items())


def opt(x):
    return "none" if x is None else "(some %s)" % x


def slist(xs):
    return "[" + ", ".join(xs) + "]"


def schema(s, refbase):
    """Lean term for one schema node. refbase: prefix for local refs inside the draft-04 document"""
    if not isinstance(s, dict):
        raise ValueError("schema is not an object: %r" % (s,))
    f = []
    if "$ref" in s:
        r = s["$ref"]
        if r.startswith("#") and refbase:
            r = refbase + r
        f.append("ref := %s" % lstr(r))
    t = s.get("type")
    if isinstance(t, str):
        f.append("types := [%s]" % lstr(t))
    elif isinstance(t, list):
        f.append("types := %s" % slist(lstr(x) for x in t))
    if "format" in s:
        f.append("format := %s" % lstr(s["format"]))
    if s.get("enum"):
        f.append("enum := %s" % slist(jval(x) for x in s["enum"]))
    if "default" in s:
        f.append("default := some %s" % jval(s["default"]))
    for k, fld in (("multipleOf", "multipleOf"), ("maximum", "maximum"), ("minimum", "minimum")):
        if k in s:
            f.append("%s := some %s" % (fld, lrat(s[k])))
    if s.get("exclusiveMaximum") is True:
        f.append("exclMax := true")
    if s.get("exclusiveMinimum") is True:
        f.append("exclMin := true")
    for k, fld in (("maxLength", "maxLength"), ("minLength", "minLength"), ("maxItems", "maxItems"), ("minItems", "minItems"),
                   ("maxProperties", "maxProps"), ("minProperties", "minProps")):
        if k in s:
            f.append("%s := some %d" % (fld, s[k]))
    if "pattern" in s:
        f.append("pattern := %s" % lstr(s["pattern"]))
    if s.get("uniqueItems") is True:
        f.append("uniqueItems := true")
    if s.get("required"):
        f.append("required := %s" % slist(lstr(x) for x in s["required"]))
    for k, fld in (("additionalItems", "addItems"), ("additionalProperties", "addProps")):
        if k in s:
            v = s[k]
            f.append("%s := %s" % (fld, ".bool true" if v is True else ".bool false" if v is False else ".schema"))
    deps = s.get("dependencies") or {}
    dp = [(k, v) for k, v in deps.items() if isinstance(v, list)]
    if dp:
        f.append("depProps := %s" % slist("(%s, %s)" % (lstr(k), slist(lstr(x) for x in v)) for k, v in dp))
    if isinstance(s.get("id"), str):
        f.append("sid := %s" % lstr(s["id"]))
    if s.get("readOnly") is True:
        f.append("readOnly := true")
    base = "{ " + ", ".join(f) + " }" if f else "{}"

    def sub(k):
        v = s.get(k)
        return opt(schema(v, refbase)) if isinstance(v, dict) else "none"

    def subl(k):
        v = s.get(k)
        return slist(schema(x, refbase) for x in v) if isinstance(v, list) else "[]"

    def subm(k):
        v = s.get(k)
        return slist("(%s, %s)" % (lstr(n), schema(x, refbase)) for n, x in v.items()) if isinstance(v, dict) else "[]"

    items = s.get("items")
    itemsS = opt(schema(items, refbase)) if isinstance(items, dict) else "none"
    itemsT = slist(schema(x, refbase) for x in items) if isinstance(items, list) else "[]"
    depS = slist("(%s, %s)" % (lstr(k), schema(v, refbase)) for k, v in deps.items() if isinstance(v, dict))
    return "(.mk %s %s %s %s %s %s %s %s %s %s %s %s)" % (
        base, itemsS, itemsT, sub("additionalItems"), subm("properties"), subm("patternProperties"),
        sub("additionalProperties"), depS, subl("allOf"), subl("anyOf"), subl("oneOf"), sub("not"))


def ident(name):
    return "sw_" + re.sub(r"[^A-Za-z0-9]", "_", name)


def main():
    d = moddir()
    sw = json.load(open(os.path.join(d, "schemas", "v2", "schema.json")))
    d4 = json.load(open(os.path.join(d, "schemas", "jsonschema-draft-04.json")))
    # which draft-04 fragments are referred to (transitively)
    need, todo = set(), []

    def refs(x, base):
        if isinstance(x, dict):
            for k, v in x.items():
                if k == "$ref" and isinstance(v, str):
                    r = v if not (v.startswith("#") and base) else base + v
                    if r.startswith(D4) and r not in need:
                        need.add(r)
                        todo.append(r)
                else:
                    refs(v, base)
        elif isinstance(x, list):
            for v in x:
                refs(v, base)

    refs(sw, "")
    while todo:
        r = todo.pop()
        node = d4
        for part in r[len(D4) + 2:].split("/"):
            node = node[part]
        refs(node, D4)
    out = ["/-", "  GENERATED by /verif/tools/gen_swagger_lean.py from", "  %s/schemas/v2/schema.json (+ jsonschema-draft-04.json fragments)." % d.replace(os.path.expanduser("~"), "~"),
           "  Do not edit: regenerated on every run.", "-/", "import VM.Schema", "namespace VM.Generated", "open VM", ""]
    table = []
    for name, s in sw.get("definitions", {}).items():
        out.append("def %s : Schema := %s" % (ident("def_" + name), schema(s, "")))
        table.append(("#/definitions/" + name, ident("def_" + name)))
    for r in sorted(need):
        node = d4
        for part in r[len(D4) + 2:].split("/"):
            node = node[part]
        nm = ident("d4_" + r[len(D4) + 2:])
        out.append("def %s : Schema := %s" % (nm, schema(node, D4)))
        table.append((r, nm))
    root = dict(sw)
    root.pop("definitions", None)
    out.append("")
    out.append("/-- the root of the Swagger 2.0 schema -/")
    out.append("def swaggerRoot : Schema := %s" % schema(root, ""))
    out.append("")
    out.append("def swaggerTable : List (String × Schema) := %s" % slist("(%s, %s)" % (lstr(r), n) for r, n in table))
    out.append("")
    out.append("/-- what a `$ref` of the Swagger schema resolves to -/")
    out.append("def swaggerDefs (name : String) : Option Schema := alookup name swaggerTable")
    out.append("")
    out.append("end VM.Generated")
    text = "\n".join(out) + "\n"
    old = open(OUT).read() if os.path.exists(OUT) else None
    if old != text:
        with open(OUT, "w") as fh:
            fh.write(text)
    # fingerprint of the source the harness can compare with what the library hands out at run time
    print(json.dumps({"definitions": len(sw.get("definitions", {})), "draft4_fragments": len(need), "bytes": len(text)}))


main()
