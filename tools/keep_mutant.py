#!/usr/bin/env python3
"""keep_mutant.py <PID> <x> "<what it needs to manifest>" : copy a confirmed seeded change from /tmp/mut/out into /verif/seeded"""
import json, os, re, shutil, sys
pid, x, needs = sys.argv[1], sys.argv[2], sys.argv[3]
src = "/tmp/mut/out/%s/%s" % (pid, x)
dst = "/verif/seeded/%s-%s" % (pid, x)
os.makedirs(dst, exist_ok=True)
ver = open(os.path.join(src, "verify.log")).read() if os.path.exists(os.path.join(src, "verify.log")) else ""
if "MUTANT CONFIRMED" not in ver:
    sys.exit("not confirmed: " + src)
for f in os.listdir(src):
    if f == "patch.diff" or f.endswith("_test.go") or f == "README.md" or f.endswith(".go"):
        shutil.copy(os.path.join(src, f), os.path.join(dst, f))
checks = open(os.path.join(src, "checks.log")).read() if os.path.exists(os.path.join(src, "checks.log")) else ""
outcome = {}
for line in checks.splitlines():
    m = re.match(r"\[(C\d+)\] (OK|VIOLATION)(.*)", line)
    if m:
        p, res, rest = m.groups()
        tag = "caught" if res == "VIOLATION" else "missed"
        if "no-failing-input-found" in rest:
            tag = "caught (proof obligation / tie broken; no failing input found)"
        if outcome.get(p, "").startswith("caught") and tag == "missed":
            continue
        if not (outcome.get(p) == "caught" ):
            outcome[p] = tag
meta = {"property": pid, "mutant": x, "breaks": pid, "needs_to_manifest": needs,
        "confirmed_by": "tools/verify_mutant.sh (scratch worktree: patch applies, builds, demo fails with it, pinned suite 340/340 passes with it, demo passes without it)",
        "verify_result": [l for l in ver.splitlines() if l.startswith("RESULT")][-1:],
        "checks_run": "tools/run_on_mutant.sh patch.diff quick " + " ".join(outcome.keys()),
        "checks_outcome": outcome}
json.dump(meta, open(os.path.join(dst, "meta.json"), "w"), indent=1)
print(dst, outcome)
