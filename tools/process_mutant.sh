#!/bin/bash
# usage: process_mutant.sh <PID> <x> <tier> <props...> : confirm the seeded change independently, then run the given checks on it
PID=$1; X=$2; TIER=$3; shift 3
D=/tmp/mut/out/$PID/$X
/verif/tools/verify_mutant.sh $D > $D/verify.log 2>&1
tail -2 $D/verify.log | sed "s/^/[$PID-$X] /"
/verif/tools/run_on_mutant.sh $D/patch.diff $TIER "$@" > $D/checks.log 2>&1
sed "s/^/[$PID-$X] /" $D/checks.log
