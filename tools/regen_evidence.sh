#!/bin/bash
# regenerate every evidence file from /verif against /repo (quick tier, seed 1) and validate them against the schema
cd "$(dirname "$0")/.."
rc=0
for p in C01 C02 C03 C04 C05 C06 C07 C08 C09 C10 C11 C12 C13 C14 C15 C16 C17 C18 C19 C20; do
  rm -f evidence/$p.json
  out=$(VERIF_SEED=1 ./check $p --tier quick 2>/dev/null | grep -E "^(OK|VIOLATION)")
  echo "$out"
  echo "$out" | grep -q "^VIOLATION" && rc=1
done
python3-vt - <<'P'
import json, jsonschema, glob
sch = json.load(open('/root/.vp/EVIDENCE.schema.json'))
bad = 0
for f in sorted(glob.glob('/verif/evidence/C??.json')):
    try:
        jsonschema.validate(json.load(open(f)), sch)
    except Exception as e:
        bad += 1
        print("INVALID", f, str(e)[:300])
print("evidence files valid:", len(glob.glob('/verif/evidence/C??.json')) - bad, "invalid:", bad)
P
exit $rc
