#!/usr/bin/env python3
"""rehearse.py [ids...] : run the checks listed in seeded/<id>/meta.json ("checks") on every seeded change (scratch copies only)
and record the outcome per check in meta.json ("checks_outcome")."""
import json, os, re, subprocess, sys
V = os.path.dirname(os.path.dirname(os.path.abspath(__file__)))
ids = sys.argv[1:] or sorted(os.listdir(os.path.join(V, "seeded")))
for i in ids:
    d = os.path.join(V, "seeded", i)
    mp = os.path.join(d, "meta.json")
    if not os.path.exists(mp):
        continue
    meta = json.load(open(mp))
    checks = meta.get("checks") or list((meta.get("checks_outcome") or {}).keys()) or [meta["property"]]
    p = subprocess.run([os.path.join(V, "tools", "run_on_mutant.sh"), os.path.join(d, "patch.diff"), "quick"] + checks,
                       stdout=subprocess.PIPE, stderr=subprocess.STDOUT, text=True)
    outcome = {}
    for line in p.stdout.splitlines():
        m = re.match(r"\[(C\d+)\] (OK|VIOLATION)(.*)", line)
        if not m:
            continue
        c, res, rest = m.groups()
        tag = "missed" if res == "OK" else ("caught (proof obligation / tie broken; no failing input found)" if "no-failing-input-found" in rest else "caught (failing input replayed)")
        if outcome.get(c, "").startswith("caught (failing") :
            continue
        outcome[c] = tag
    meta["checks"] = checks
    meta["checks_outcome"] = outcome
    meta["checks_run"] = "tools/run_on_mutant.sh patch.diff quick " + " ".join(checks)
    json.dump(meta, open(mp, "w"), indent=1)
    print(i, outcome, flush=True)
