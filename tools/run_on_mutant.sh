#!/bin/bash
# usage: run_on_mutant.sh <patch.diff> <tier> <property>...
# Runs the given checks against the seeded change WITHOUT touching /repo or /verif: a scratch worktree of
# /repo (HEAD + patch) and a scratch copy of /verif (with its build output, so nothing is rebuilt from zero),
# both under /tmp/mut, both removed afterwards.
set -u
P="$(readlink -f "$1")"; TIER="$2"; shift 2
S=$(mktemp -d /tmp/mut/run.XXXXXX)
R=$S/repo; V=$S/verif
cleanup() { git -C /repo worktree remove --force "$R" >/dev/null 2>&1; rm -rf "$S"; }
trap cleanup EXIT
git -C /repo worktree add --detach "$R" HEAD >/dev/null 2>&1 || { echo "worktree failed"; exit 2; }
git -C "$R" apply "$P" || { echo "patch does not apply"; exit 2; }
mkdir -p "$V"
# VERIF_SRC: a frozen copy of /verif (so that the rehearsal is not disturbed by work in progress there)
SRC="${VERIF_SRC:-$( [ -d /tmp/mut/verif-snap ] && echo /tmp/mut/verif-snap || echo /verif )}"
rsync -a --exclude .git --exclude evidence/replay --exclude evidence/work "$SRC"/ "$V"/
mkdir -p "$V/evidence/work" "$V/evidence/replay"
rm -f "$V/bin/harness" "$V/bin/harness_race" "$V/bin/extract"
cd "$V"
for p in "$@"; do
  VERIF_REPO="$R" ./check $p --tier $TIER 2>"$S/err_$p.log" | grep -E "^(OK|VIOLATION)" | sed "s#$V#/verif#; s/^/[$p] /"
  cp "$S/err_$p.log" "/tmp/mut/lasterr_$(basename $(dirname "$P"))_$p.log" 2>/dev/null
  # keep the first replay file for the record
  for f in $(ls "$V"/evidence/replay/$p-*.json 2>/dev/null | head -1); do cp "$f" "$(dirname "$P")/replay_$p.json"; done
  rm -f "$V"/evidence/replay/*
done
