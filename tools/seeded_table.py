#!/usr/bin/env python3
"""seeded_table.py : print the table of DESIGN.md §14.5 from seeded/*/meta.json"""
import json, os, re
V = os.path.dirname(os.path.dirname(os.path.abspath(__file__)))
short = {"caught (failing input replayed)": "input", "caught (proof obligation / tie broken; no failing input found)": "tie/T1",
         "caught": "input", "missed": "-"}
print("| change | what it does (first line of its README) | needs | checks (quick tier) |")
print("|---|---|---|---|")
for i in sorted(os.listdir(os.path.join(V, "seeded"))):
    d = os.path.join(V, "seeded", i)
    mp = os.path.join(d, "meta.json")
    if not os.path.exists(mp):
        continue
    m = json.load(open(mp))
    title = ""
    rp = os.path.join(d, "README.md")
    if os.path.exists(rp):
        for l in open(rp):
            if l.strip().startswith("#"):
                title = re.sub(r"^#+\s*", "", l.strip())
                title = re.sub(r"^C\d+\s*[/,-]?\s*mutant\s*\w\s*[—:-]*\s*", "", title, flags=re.I)
                break
    oc = ", ".join("%s: %s" % (k, short.get(v, v)) for k, v in (m.get("checks_outcome") or {}).items())
    print("| %s | %s | %s | %s |" % (i, title[:90], (m.get("needs_to_manifest") or "")[:110], oc))
