#!/bin/bash
# usage: verify_mutant.sh <dir with patch.diff and demo_test.go>   (independent confirmation of a seeded change)
# Confirms in a scratch worktree (outside /repo and /verif): patch applies, builds, demo fails with it,
# pinned suite still passes with it, demo passes without it. Removes the worktree afterwards.
set -u
D="$(cd "$1" && pwd)"
export GOFLAGS=-mod=mod GOPROXY=off GOSUMDB=off GOTOOLCHAIN=local
W=$(mktemp -d /tmp/mut/vw.XXXXXX)
rmdir "$W"
git -C /repo worktree add --detach "$W" HEAD >/dev/null 2>&1 || { echo "worktree failed"; exit 2; }
cleanup() { git -C /repo worktree remove --force "$W" >/dev/null 2>&1; rm -rf "$W"; }
trap cleanup EXIT
DEMO=$(ls "$D"/*_test.go 2>/dev/null | head -1)
[ -n "$DEMO" ] || { echo "no demo test file"; exit 2; }
NAME=$(grep -oE '^func (Test[A-Za-z0-9_]+)' "$DEMO" | head -1 | awk '{print $2}')
RACE=""
grep -qi -- "-race" "$D/README.md" 2>/dev/null && RACE="-race"
cp "$DEMO" "$W/zz_demo_test.go"
echo "== demo on clean tree ($NAME $RACE)"
(cd "$W" && go test $RACE -run "^$NAME\$" -count=1 . 2>&1 | tail -5); CLEAN=${PIPESTATUS[0]}
(cd "$W" && go test $RACE -run "^$NAME\$" -count=1 . >/dev/null 2>&1); CLEAN=$?
git -C "$W" apply "$D/patch.diff" || { echo "PATCH DOES NOT APPLY"; exit 2; }
(cd "$W" && go build ./...) || { echo "BUILD FAILED"; exit 2; }
echo "== demo on patched tree"
(cd "$W" && go test $RACE -run "^$NAME\$" -count=1 . 2>&1 | tail -8)
(cd "$W" && go test $RACE -run "^$NAME\$" -count=1 . >/dev/null 2>&1); PATCHED=$?
rm -f "$W/zz_demo_test.go"
echo "== pinned suite on patched tree"
/tmp/mut/suite_pass.sh "$W" | tail -3; SUITE=${PIPESTATUS[0]}
echo "RESULT clean_demo_exit=$CLEAN patched_demo_exit=$PATCHED suite_exit=$SUITE"
if [ $CLEAN -eq 0 ] && [ $PATCHED -ne 0 ] && [ $SUITE -eq 0 ]; then echo "MUTANT CONFIRMED"; exit 0; else echo "MUTANT NOT CONFIRMED"; exit 1; fi
